package main

// C12 — each type has exactly its ontology's properties, with the declared ranges.

import (
	"fmt"
	"go/ast"
	"go/token"
	"go/types"
	"golang.org/x/tools/go/packages"
	"sort"
	"strings"
)

func propKey(vocabURI, name string) string { return normURI(vocabURI) + "|" + name }

// expectedProps: keys of the properties type T must expose.
func expectedProps(O *Ontology, t *OType) map[string]bool {
	out := map[string]bool{propKey("", "id"): true}
	if !t.Typeless {
		out[propKey("", "type")] = true
	}
	for _, p := range O.PropsOf(t.Name) {
		out[propKey(p.Vocab.ID, p.Name)] = true
	}
	return out
}

func (pm *PropModel) key() string { return propKey(pm.VocabURI, pm.Name) }

// thisField: e is `this.<F>`; returns the struct field.
func thisField(info *types.Info, e ast.Expr) *types.Var {
	sel, ok := e.(*ast.SelectorExpr)
	if !ok || !isIdentNamed(sel.X, "this") {
		return nil
	}
	if s := info.Selections[sel]; s != nil && s.Kind() == types.FieldVal {
		v, _ := s.Obj().(*types.Var)
		return v
	}
	return nil
}

type typeTables struct {
	fields, deser, assigned, serialized, context, getters, setters map[string]bool
	claimed                                                        map[string]bool   // raw JSON keys
	claimedVocab                                                   map[string]string // claimed name -> vocabulary URI whose alias prefixes the comparison ("" = compared plain)
	unknownStored, unknownEmitted                                  bool
	problems                                                       []string
}

func extractTypeTables(M *GenModel, tm *TypeModel) *typeTables {
	g := tm.G
	info := g.Pkg.TypesInfo
	tt := &typeTables{fields: map[string]bool{}, deser: map[string]bool{}, assigned: map[string]bool{}, serialized: map[string]bool{}, context: map[string]bool{}, getters: map[string]bool{}, setters: map[string]bool{}, claimed: map[string]bool{}, claimedVocab: map[string]string{}}
	for f, pm := range tm.Fields {
		tt.fields[pm.key()] = true
		sn := g.Struct.Obj().Name()
		if fd := g.Funcs["("+sn+").Get"+f.Name()]; fd != nil {
			if len(fd.Body.List) == 1 {
				if r, ok := fd.Body.List[0].(*ast.ReturnStmt); ok && len(r.Results) == 1 && thisField(info, r.Results[0]) == f {
					tt.getters[pm.key()] = true
				}
			}
		}
		if fd := g.Funcs["("+sn+").Set"+f.Name()]; fd != nil {
			if len(fd.Body.List) == 1 {
				if as, ok := fd.Body.List[0].(*ast.AssignStmt); ok && len(as.Lhs) == 1 && thisField(info, as.Lhs[0]) == f {
					tt.setters[pm.key()] = true
				}
			}
		}
	}
	var deserFn *ast.FuncDecl
	for name, fd := range g.Funcs {
		if fd.Recv == nil && strings.HasPrefix(name, "Deserialize") {
			deserFn = fd
		}
	}
	if deserFn == nil {
		tt.problems = append(tt.problems, "no Deserialize function")
	} else {
		// property deserialiser calls and the field each result is stored in
		ast.Inspect(deserFn.Body, func(n ast.Node) bool {
			ifs, ok := n.(*ast.IfStmt)
			if !ok || ifs.Init == nil {
				return true
			}
			as, ok := ifs.Init.(*ast.AssignStmt)
			if !ok || len(as.Rhs) != 1 {
				return true
			}
			outer, ok := as.Rhs[0].(*ast.CallExpr)
			if !ok {
				return true
			}
			inner, ok := outer.Fun.(*ast.CallExpr)
			if !ok {
				return true
			}
			// the package-local manager interface mirrors streams.Manager: resolve by the
			// method's result type func(...) (vocab.<P>Property, error)
			var pm *PropModel
			if f := calleeFunc(info, inner); f != nil {
				pm = M.MgrProp[f]
				if pm == nil {
					if sig, ok := f.Type().(*types.Signature); ok && sig.Results().Len() == 1 {
						if rs, ok := sig.Results().At(0).Type().(*types.Signature); ok && rs.Results().Len() == 2 {
							if n, ok := rs.Results().At(0).Type().(*types.Named); ok {
								pm = M.PropOf[n]
							}
						}
					}
				}
			}
			if pm == nil {
				return true
			}
			if len(outer.Args) != 2 || !isIdentNamed(outer.Args[0], "m") {
				tt.problems = append(tt.problems, "property deserialiser for "+pm.Name+" is not applied to the input map")
			}
			tt.deser[pm.key()] = true
			// else-if p != nil { this.F = p }
			ast.Inspect(ifs, func(m ast.Node) bool {
				if a2, ok := m.(*ast.AssignStmt); ok && len(a2.Lhs) == 1 {
					if fv := thisField(info, a2.Lhs[0]); fv != nil && tm.Fields[fv] == pm {
						tt.assigned[pm.key()] = true
					}
				}
				return true
			})
			return true
		})
		// unknown loop: for k, v := range m { if k == "…" {continue} else if … ; this.unknown[k] = v }
		ast.Inspect(deserFn.Body, func(n ast.Node) bool {
			rs, ok := n.(*ast.RangeStmt)
			if !ok || !isIdentNamed(rs.X, "m") {
				return true
			}
			// key prefixes: <v> := ""; if a, ok := aliasMap["<uri>"]; ok && len(a) > 0 { <v> = a + ":" }
			prefixURI := map[types.Object]string{}
			ast.Inspect(deserFn.Body, func(m ast.Node) bool {
				ifs, ok := m.(*ast.IfStmt)
				if !ok || ifs.Init == nil {
					return true
				}
				as, ok := ifs.Init.(*ast.AssignStmt)
				if !ok || len(as.Rhs) != 1 || len(as.Lhs) != 2 {
					return true
				}
				ix, ok := as.Rhs[0].(*ast.IndexExpr)
				if !ok || !isIdentNamed(ix.X, "aliasMap") {
					return true
				}
				uri, ok := strLit(info, ix.Index)
				aid, ok2 := as.Lhs[0].(*ast.Ident)
				if !ok || !ok2 {
					return true
				}
				for _, st := range ifs.Body.List {
					if a2, ok := st.(*ast.AssignStmt); ok && len(a2.Lhs) == 1 && len(a2.Rhs) == 1 {
						if be, ok := a2.Rhs[0].(*ast.BinaryExpr); ok && be.Op == token.ADD && isIdentNamed(be.X, aid.Name) {
							if sep, ok := strLit(info, be.Y); ok && sep == ":" {
								if l, ok := a2.Lhs[0].(*ast.Ident); ok {
									prefixURI[info.ObjectOf(l)] = uri
								}
							}
						}
					}
				}
				return true
			})
			claim := func(e ast.Expr) {
				if s, ok := strLit(info, e); ok {
					tt.claimed[s] = true
					tt.claimedVocab[s] = ""
					return
				}
				// <prefix> + "name"
				if be, ok := e.(*ast.BinaryExpr); ok && be.Op == token.ADD {
					if s, ok := strLit(info, be.Y); ok {
						if id, ok := be.X.(*ast.Ident); ok {
							if u, known := prefixURI[info.ObjectOf(id)]; known {
								tt.claimed[s] = true
								tt.claimedVocab[s] = u
							}
						}
					}
				}
			}
			ast.Inspect(rs.Body, func(m ast.Node) bool {
				switch x := m.(type) {
				case *ast.BinaryExpr:
					if x.Op == token.EQL && isIdentNamed(x.X, "k") {
						claim(x.Y)
					}
					if x.Op == token.EQL && isIdentNamed(x.Y, "k") {
						claim(x.X)
					}
				case *ast.SwitchStmt:
					// switch k { case "a", "b": continue }
					if x.Tag != nil && isIdentNamed(x.Tag, "k") {
						for _, cl := range x.Body.List {
							cc, ok := cl.(*ast.CaseClause)
							if !ok {
								continue
							}
							skips := false
							for _, st := range cc.Body {
								if br, ok := st.(*ast.BranchStmt); ok && br.Tok == token.CONTINUE {
									skips = true
								}
							}
							if !skips {
								continue
							}
							for _, e := range cc.List {
								claim(e)
							}
						}
					}
				case *ast.AssignStmt:
					if len(x.Lhs) == 1 && len(x.Rhs) == 1 {
						if ix, ok := x.Lhs[0].(*ast.IndexExpr); ok && isIdentNamed(ix.Index, "k") && isIdentNamed(x.Rhs[0], "v") {
							if fv := thisField(info, ix.X); fv != nil && fv.Name() == "unknown" {
								tt.unknownStored = true
							}
						}
					}
				}
				return true
			})
			return false
		})
	}
	sn := g.Struct.Obj().Name()
	if fd := g.Funcs["("+sn+").Serialize"]; fd != nil {
		ast.Inspect(fd.Body, func(n ast.Node) bool {
			switch x := n.(type) {
			case *ast.IfStmt:
				// if this.F != nil { if i, err := this.F.Serialize(); … else if i != nil { m[this.F.Name()] = i } }
				be, ok := x.Cond.(*ast.BinaryExpr)
				if !ok || be.Op != token.NEQ {
					return true
				}
				fv := thisField(info, be.X)
				pm := tm.Fields[fv]
				if pm == nil {
					return true
				}
				okSer, okStore := false, false
				ast.Inspect(x.Body, func(m ast.Node) bool {
					switch y := m.(type) {
					case *ast.CallExpr:
						if sel, ok := y.Fun.(*ast.SelectorExpr); ok && sel.Sel.Name == "Serialize" && thisField(info, sel.X) == fv {
							okSer = true
						}
						// the block handed to a local helper: put(this.F), where put serialises its
						// parameter and stores the result under the parameter's Name()
						if id, ok := y.Fun.(*ast.Ident); ok && len(y.Args) >= 1 && thisField(info, y.Args[0]) == fv {
							if lit := localFuncLit(info, fd, id); lit != nil && len(lit.Type.Params.List) >= 1 && len(lit.Type.Params.List[0].Names) == 1 {
								pn := lit.Type.Params.List[0].Names[0].Name
								s1, s2 := false, false
								ast.Inspect(lit.Body, func(q ast.Node) bool {
									switch z := q.(type) {
									case *ast.CallExpr:
										if sel, ok := z.Fun.(*ast.SelectorExpr); ok && sel.Sel.Name == "Serialize" && isIdentNamed(sel.X, pn) {
											s1 = true
										}
									case *ast.AssignStmt:
										if len(z.Lhs) == 1 {
											if ix, ok := z.Lhs[0].(*ast.IndexExpr); ok && isIdentNamed(ix.X, "m") {
												if c, ok := ix.Index.(*ast.CallExpr); ok {
													if sel, ok := c.Fun.(*ast.SelectorExpr); ok && sel.Sel.Name == "Name" && isIdentNamed(sel.X, pn) {
														s2 = true
													}
												}
											}
										}
									}
									return true
								})
								if s1 && s2 {
									okSer, okStore = true, true
								}
							}
						}
					case *ast.AssignStmt:
						if len(y.Lhs) == 1 {
							if ix, ok := y.Lhs[0].(*ast.IndexExpr); ok && isIdentNamed(ix.X, "m") {
								if c, ok := ix.Index.(*ast.CallExpr); ok {
									if sel, ok := c.Fun.(*ast.SelectorExpr); ok && sel.Sel.Name == "Name" && thisField(info, sel.X) == fv {
										okStore = true
									}
								}
							}
						}
					}
					return true
				})
				if okSer && okStore {
					tt.serialized[pm.key()] = true
				}
			case *ast.RangeStmt:
				if fv := thisField(info, x.X); fv != nil && fv.Name() == "unknown" {
					tt.unknownEmitted = true
				}
			}
			return true
		})
	} else {
		tt.problems = append(tt.problems, "no Serialize method")
	}
	if fd := g.Funcs["("+sn+").JSONLDContext"]; fd != nil {
		ast.Inspect(fd.Body, func(n ast.Node) bool {
			mark := func(e ast.Expr) {
				if fv := thisField(info, e); fv != nil {
					if pm := tm.Fields[fv]; pm != nil {
						tt.context[pm.key()] = true
					}
				}
			}
			switch x := n.(type) {
			case *ast.CallExpr:
				// handed to the merge helper, or asked for its context directly
				if len(x.Args) >= 1 {
					mark(x.Args[0])
				}
				if sel, ok := x.Fun.(*ast.SelectorExpr); ok && sel.Sel.Name == "JSONLDContext" {
					mark(sel.X)
				}
			case *ast.RangeStmt:
				// for _, p := range []T{this.A, this.B, …} { … p.JSONLDContext() … }
				cl, ok := x.X.(*ast.CompositeLit)
				vid, ok2 := x.Value.(*ast.Ident)
				if !ok || !ok2 {
					return true
				}
				asked := false
				ast.Inspect(x.Body, func(m ast.Node) bool {
					if c, ok := m.(*ast.CallExpr); ok {
						if sel, ok := c.Fun.(*ast.SelectorExpr); ok && sel.Sel.Name == "JSONLDContext" {
							if id, ok := sel.X.(*ast.Ident); ok && info.ObjectOf(id) == info.ObjectOf(vid) {
								asked = true
							}
						}
						for _, a := range c.Args {
							if id, ok := a.(*ast.Ident); ok && info.ObjectOf(id) == info.ObjectOf(vid) {
								asked = true
							}
						}
					}
					return true
				})
				if asked {
					for _, e := range cl.Elts {
						mark(e)
					}
				}
			}
			return true
		})
	}
	return tt
}

// S_rootInfo: types.Info of package streams (manager methods are declared there;
// uses of them from other packages resolve to the same *types.Func objects only
// when type-checked from source, which LoadSyntax does not guarantee — so the
// lookup is done by full name as a fallback).
func S_rootInfo(M *GenModel) *types.Info { return M.S.Root.TypesInfo }

func checkC12(res *Result) {
	O := loadOntology()
	M := loadGenModel()
	S := M.S
	res.Packages = []string{modPath + "/streams/..."}
	res.Explanation = "The table clauses are decided exhaustively for the shipped code against the ontology closure computed independently from the four JSON-LD files: for each of the 63 types, the set of properties exposed — as struct fields, getters, setters, deserialiser calls (and the field each result is stored in), claimed member names, serialise blocks and @context merges — equals {properties whose domain meets the type's ancestors-or-self, minus those withheld from any of them} ∪ {id} ∪ {type unless typeless}, anything else being kept in the unknown map; for each of the 103 properties, the value kinds it can hold — struct members, deserialise branches and the deserialiser/codec each branch calls — equal the declared range closed under subclassing, plus IRI; functional ⇔ single slot; natural-language ⇔ a …Map spelling is read; names equal the ontology's. The numeric semantics of the literal codecs are value-level and not decided beyond a structural necessary condition: the reader and writer tables of the duration codec agree with each other and with the documented 365-day year / 30-day month, and dateTime uses RFC 3339 in both directions."
	res.Rule("C12-R1", "type ↔ property set: fields, getters, setters, deserialiser calls, stored results, claimed keys, serialise blocks and @context merges of each type all equal the ontology's property set for it (plus id, and type unless typeless); unknown members are stored and re-emitted")
	res.Rule("C12-R2", "property ↔ kinds: the type kinds a property can hold equal the descendants-or-self of its ranged types, its literal kinds equal its literal ranges, each deserialise branch calls the deserialiser/codec of the member it fills, and an IRI is admitted")
	res.Rule("C12-R3", "functional in the ontology ⇔ implemented as a single slot (no element list)")
	res.Rule("C12-R4", "names: JSON key, exported interface name and vocabulary URI of every property and type equal the ontology's; natural-language ⇔ the …Map spelling is handled")
	for _, pr := range O.Problems {
		res.bad("C12-R4", "ontology", "-", "ontology well-formed", pr)
	}
	res.Count("generated type packages", len(M.Types), 60)
	res.Count("generated property packages", len(M.Props), 100)
	nOnt := 0
	for _, v := range O.Vocabs {
		nOnt += len(v.Props)
	}
	res.Count("ontology properties", nOnt, 95)

	// ---- properties
	seenProp := map[string]*PropModel{}
	for _, pm := range M.Props {
		fn := pm.G.Dir
		pos := "-"
		if pm.PropDeser != nil {
			pos = S.pos(pm.PropDeser)
		}
		for _, pr := range pm.Problems {
			res.undecided("C12-R2", fn, pos, "property package has the generated structure", pr)
		}
		if len(pm.Problems) > 0 {
			continue
		}
		if pm.Iface == nil {
			res.undecided("C12-R4", fn, pos, "property is reachable through the Manager", "no Manager.Deserialize…Property method resolves to this package")
			continue
		}
		isJSONLD := strings.Contains(pm.G.Pkg.PkgPath, "/impl/jsonld/")
		var op *OProp
		if !isJSONLD {
			op = pm.ontologyProp(O)
			if op == nil {
				res.bad("C12-R4", fn, pos, fmt.Sprintf("property %q (%s) exists in the ontology", pm.Name, pm.VocabURI), "no ontology property of that name in that vocabulary")
				continue
			}
			if seenProp[pm.key()] != nil {
				res.bad("C12-R4", fn, pos, "one generated package per ontology property", "second package for "+pm.key())
			}
			seenProp[pm.key()] = pm
			// R4 names
			wantIface := op.Vocab.Name + titleName(op.Name) + "Property"
			res.check(pm.Iface.Obj().Name() == wantIface, "C12-R4", fn, pos, "exported interface of "+op.Name+" is vocab."+wantIface, "got vocab."+pm.Iface.Obj().Name())
			res.check(normURI(pm.VocabURI) == normURI(op.Vocab.ID), "C12-R4", fn, pos, "vocabulary of "+op.Name+" is "+op.Vocab.ID, "got "+pm.VocabURI)
			res.check(op.NatLang == (pm.MapKeyRead != ""), "C12-R4", fn, pos, fmt.Sprintf("natural-language=%v ⇔ the %sMap spelling is read", op.NatLang, op.Name), fmt.Sprintf("ontology natural-language: %v; code reads Map: %q", op.NatLang, pm.MapKeyRead))
			// R3
			res.check(op.Functional == pm.Functional, "C12-R3", fn, pos, fmt.Sprintf("%s is %s in the ontology and in code", op.Name, map[bool]string{true: "functional (single slot)", false: "non-functional (ordered list)"}[op.Functional]), fmt.Sprintf("ontology functional=%v, code single-slot=%v", op.Functional, pm.Functional))
			// R2 kinds
			wantTypes := O.KindsOf(op)
			gotTypes := map[string]bool{}
			gotLits := map[string]bool{}
			for _, m := range pm.Members {
				if m.Kind == "type" {
					gotTypes[m.TypeGen.Name] = true
				} else {
					if m.Lit == "" {
						res.undecided("C12-R2", fn, pos, "literal member "+m.Field.Name()+" is filled by a codec of streams/values", "no deserialise branch fills it")
					}
					gotLits[m.Lit] = true
				}
			}
			missing, extra := setDiff(wantTypes, gotTypes)
			res.Add(Oblig{Rule: "C12-R2", Func: fn, Pos: pos, Key: "C12-R2|" + pm.key() + "|type kinds", Desc: fmt.Sprintf("%s admits exactly the %d types of its range closure", op.Name, len(wantTypes)),
				Verdict: map[bool]string{true: OK, false: VIOLATION}[len(missing) == 0 && len(extra) == 0], Detail: fmt.Sprintf("in the ontology's range but not admitted: %v; admitted but outside the range: %v", missing, extra)})
			wantLits := map[string]bool{}
			for _, l := range op.RangeLits {
				wantLits[l[strings.Index(l, ":")+1:]] = true
			}
			missing, extra = setDiff(wantLits, gotLits)
			res.Add(Oblig{Rule: "C12-R2", Func: fn, Pos: pos, Key: "C12-R2|" + pm.key() + "|literal kinds", Desc: fmt.Sprintf("%s admits exactly the literal kinds %v", op.Name, setList(wantLits)),
				Verdict: map[bool]string{true: OK, false: VIOLATION}[len(missing) == 0 && len(extra) == 0], Detail: fmt.Sprintf("declared but not admitted: %v; admitted but not declared: %v", missing, extra)})
			res.check(structHasField(pm.Elem, "iri") != nil || gotLits["anyURI"], "C12-R2", fn, pos, op.Name+" admits an IRI", "no iri member")
		}
		// every composite in the element deserialiser that fills a type member got its value from that type's deserialiser
		info := pm.G.Pkg.TypesInfo
		checkIRIAdmission(res, S, pm, "C12-R2", fn)
		nBranches := 0
		for _, cs := range compositesOf(info, pm.ElemDeser, pm.Elem) {
			for _, kv := range cs.lit.Elts {
				k, ok := kv.(*ast.KeyValueExpr)
				if !ok {
					continue
				}
				fv, _ := info.ObjectOf(k.Key.(*ast.Ident)).(*types.Var)
				m := pm.memberByField[fv]
				if m == nil || m.Kind != "type" {
					continue
				}
				nBranches++
				var src *GenType
				if cs.source != nil {
					if f := calleeFunc(info, cs.source); f != nil {
						src = M.MgrType[f]
						if src == nil {
							// resolve by result type: func(...) (vocab.T, error)
							if sig, ok := f.Type().(*types.Signature); ok && sig.Results().Len() == 1 {
								if rs, ok := sig.Results().At(0).Type().(*types.Signature); ok && rs.Results().Len() == 2 {
									if n, ok := rs.Results().At(0).Type().(*types.Named); ok {
										src = M.TypeOf[n]
									}
								}
							}
						}
					}
				}
				if src != m.TypeGen {
					got := "<unresolved>"
					if src != nil {
						got = src.Name
					}
					res.bad("C12-R2", fn, S.pos(cs.lit), "member "+fv.Name()+" is filled from the deserialiser of "+m.TypeGen.Name, "filled from the deserialiser of "+got)
				}
			}
		}
		nType := 0
		for _, m := range pm.Members {
			if m.Kind == "type" {
				nType++
			}
		}
		res.check(nBranches == nType, "C12-R2", fn, pos, fmt.Sprintf("each of the %d type members has exactly one deserialise branch", nType), fmt.Sprintf("%d branches", nBranches))
	}
	for _, v := range O.Vocabs {
		for _, op := range v.Props {
			if seenProp[propKey(v.ID, op.Name)] == nil {
				res.bad("C12-R4", op.Name, "-", "ontology property "+op.Name+" ("+v.Name+") has generated code", "no property package implements it")
			}
		}
	}

	// ---- types
	for _, tm := range M.Types {
		g := tm.G
		ot := O.Types[g.Name]
		fn := g.Name
		if ot == nil {
			res.bad("C12-R4", path0(g.Pkg.PkgPath), "-", "generated type has an ontology counterpart", "GetTypeName "+g.Name)
			continue
		}
		for _, pr := range tm.Problems {
			res.undecided("C12-R1", fn, "-", "type struct has the generated structure", pr)
		}
		res.check(normURI(g.VocabURI) == normURI(ot.Vocab.ID), "C12-R4", fn, "-", "VocabularyURI of "+g.Name+" is that of "+ot.Vocab.Name, "got "+g.VocabURI+", ontology "+ot.Vocab.ID)
		if g.Struct != nil {
			res.check(g.Struct.Obj().Name() == ot.Vocab.Name+g.Name, "C12-R4", fn, "-", "implementation type is named "+ot.Vocab.Name+g.Name, "got "+g.Struct.Obj().Name())
		}
		want := expectedProps(O, ot)
		tt := extractTypeTables(M, tm)
		for _, pr := range tt.problems {
			res.undecided("C12-R1", fn, "-", "type functions have the generated structure", pr)
		}
		tables := []struct {
			name string
			got  map[string]bool
		}{{"struct fields", tt.fields}, {"getters", tt.getters}, {"setters", tt.setters}, {"deserialiser calls", tt.deser}, {"deserialised value stored in its field", tt.assigned}, {"serialise blocks", tt.serialized}, {"@context merges", tt.context}}
		for _, tb := range tables {
			missing, extra := setDiff(want, tb.got)
			res.Add(Oblig{Rule: "C12-R1", Func: fn, Pos: S.pos(g.Funcs["("+g.Struct.Obj().Name()+").GetTypeName"]), Key: "C12-R1|" + g.Name + "|" + tb.name,
				Desc:    fmt.Sprintf("%s of %s = its %d ontology properties", tb.name, g.Name, len(want)),
				Verdict: map[bool]string{true: OK, false: VIOLATION}[len(missing) == 0 && len(extra) == 0],
				Detail:  fmt.Sprintf("in the ontology but missing: %v; present but not in the ontology: %v", missing, extra)})
		}
		// claimed keys
		wantKeys := map[string]bool{"id": true}
		if !ot.Typeless {
			wantKeys["type"] = true
		}
		for _, p := range O.PropsOf(g.Name) {
			wantKeys[p.Name] = true
			if p.NatLang {
				wantKeys[p.Name+"Map"] = true
			}
		}
		missing, extra := setDiff(wantKeys, tt.claimed)
		res.Add(Oblig{Rule: "C12-R1", Func: fn, Pos: "-", Key: "C12-R1|" + g.Name + "|claimed member names",
			Desc:    fmt.Sprintf("member names %s treats as known = the %d names of its properties (others go to the unknown map)", g.Name, len(wantKeys)),
			Verdict: map[bool]string{true: OK, false: VIOLATION}[len(missing) == 0 && len(extra) == 0],
			Detail:  fmt.Sprintf("a property's name not claimed (would be duplicated into unknown): %v; claimed though no property reads it (silently dropped): %v", missing, extra)})
		res.check(tt.unknownStored && tt.unknownEmitted, "C12-R1", fn, "-", "a member outside that set is kept in the unknown map and re-emitted", fmt.Sprintf("stored: %v, emitted: %v", tt.unknownStored, tt.unknownEmitted))
		// a claim made with an alias prefix uses the alias of the property's own vocabulary
		var wrongPrefix []string
		for _, p := range O.PropsOf(g.Name) {
			for _, nm := range []string{p.Name, p.Name + "Map"} {
				if u, claimed := tt.claimedVocab[nm]; claimed && u != "" && normURI(u) != normURI(p.Vocab.ID) {
					wrongPrefix = append(wrongPrefix, nm)
				}
			}
		}
		sort.Strings(wrongPrefix)
		res.check(len(wrongPrefix) == 0, "C12-R1", fn, "-", "an aliased claim uses the alias of the property's own vocabulary", fmt.Sprintf("claimed under another vocabulary's alias: %v", wrongPrefix))
	}
	var names []string
	for n := range O.Types {
		names = append(names, n)
	}
	sort.Strings(names)
	have := map[string]bool{}
	for _, tm := range M.Types {
		have[tm.G.Name] = true
	}
	for _, n := range names {
		res.check(have[n], "C12-R4", n, "-", "ontology type "+n+" has generated code", "missing")
	}
	res.Rule("C12-R5", "literal codecs: the duration reader and writer use 365-day years, 30-day months, 24-hour days with the same factors in both directions and emit a unit when at least one whole unit remains; dateTime is written and first read as RFC 3339; the other codecs write the value itself")
	checkCodecs(res, S, "C12-R5")
	res.Functions = len(M.Types) + len(M.Props)
	res.Rule("C12-R8", "the generator's member-set algebra (what decides a generated type's property set, also for extension vocabularies): allProperties adds the properties of every transitive ancestor and only afterwards removes those withheld from any transitive ancestor and from the type itself (shared with C15-R4)")
	{
		tmp := NewResult("C15", "other", res.Tier, 0)
		checkC15Algebra(tmp, loadPkgs(packages.LoadSyntax, false, "./astool/..."))
		n := 0
		for _, o := range tmp.Obligs {
			if o.Rule != "C15-R4" {
				continue
			}
			n++
			o.Rule = "C12-R8"
			o.Key = strings.Replace(o.Key, "C15-R4", "C12-R8", 1)
			res.Add(o)
		}
		res.Count("C12-R8 obligations on TypeGenerator.allProperties", n, 4)
	}
	res.Rule("C12-R7", "typed accessors: GetType / SetType of every property cover each type-valued kind of its range and pair each with its own getter / setter (shared with C18-R4)")
	checkTypeAccessorTables(res, "C12-R7", nil)
	res.Rule("C12-R6", "a non-functional property holds the document's list in order also when walked with Begin/Next/Prev: every decoder numbers the elements it produces 0..n-1 and links them to the container (shared with C18-R1)")
	checkDecodedContainers(res, "C12-R6", "a walk with Begin/Next skips or repeats elements: the list seen through the iterator accessors is not the document's list")
	res.Assumptions = append(res.Assumptions, "the ontology reader's interpretation of domain / range / unionOf / subClassOf / @wtf_without_property / @wtf_typeless", "go/types resolution of Manager methods to packages")
	res.Undecided = []string{"that typed accessors return the value the lexical form denotes (instants, 365-day years and 30-day months, numbers): numeric semantics of streams/values are not judged without evaluating them", "the generator templates in astool/gen (the shipped instances are checked, not the generator)"}
	res.Trusted = []string{"go/parser, go/types", "ontology.go", "e5_model.go extraction"}
}

func path0(p string) string { return p[strings.LastIndex(p, "/")+1:] }

// localFuncLit: the function literal a local variable of fd was defined with (f := func…).
func localFuncLit(info *types.Info, fd *ast.FuncDecl, id *ast.Ident) *ast.FuncLit {
	obj := info.ObjectOf(id)
	var out *ast.FuncLit
	ast.Inspect(fd.Body, func(n ast.Node) bool {
		if as, ok := n.(*ast.AssignStmt); ok && len(as.Lhs) == 1 && len(as.Rhs) == 1 {
			if l, ok := as.Lhs[0].(*ast.Ident); ok && info.ObjectOf(l) == obj {
				if fl, ok := as.Rhs[0].(*ast.FuncLit); ok {
					out = fl
				}
			}
		}
		return out == nil
	})
	return out
}

// guardsOf: the conjuncts of the conditions of the if statements (then-branches) enclosing n in
// fd, innermost last; type-assertion inits contribute their `ok`. ok=false if n is not found.
func guardsOf(fd *ast.FuncDecl, n ast.Node) ([]ast.Expr, bool) {
	var out []ast.Expr
	found := false
	var stack []ast.Node
	ast.Inspect(fd.Body, func(m ast.Node) bool {
		if m == nil {
			stack = stack[:len(stack)-1]
			return true
		}
		if m == n {
			found = true
			for i, anc := range stack {
				ifs, ok := anc.(*ast.IfStmt)
				if !ok || i+1 >= len(stack) || stack[i+1] != ast.Node(ifs.Body) {
					continue
				}
				var split func(e ast.Expr)
				split = func(e ast.Expr) {
					if p, ok := e.(*ast.ParenExpr); ok {
						split(p.X)
						return
					}
					if be, ok := e.(*ast.BinaryExpr); ok && be.Op == token.LAND {
						split(be.X)
						split(be.Y)
						return
					}
					out = append(out, e)
				}
				split(ifs.Cond)
			}
		}
		stack = append(stack, m)
		return true
	})
	return out, found
}

// checkIRIAdmission: rule on one property (shared by C12-R2 and, for the addressing properties, C02).
func checkIRIAdmission(res *Result, S *Streams, pm *PropModel, rule, fn string) {
	info := pm.G.Pkg.TypesInfo
	// "any property also admits an IRI": the iri member is filled under exactly the condition
	// of the anyURI codec — the string parses and has a scheme — and under no further condition
	if structHasField(pm.Elem, "iri") != nil {
		nIRI := 0
		for _, cs := range compositesOf(info, pm.ElemDeser, pm.Elem) {
			setsIRI := false
			for _, kv := range cs.lit.Elts {
				if k, ok := kv.(*ast.KeyValueExpr); ok && isIdentNamed(k.Key, "iri") {
					setsIRI = true
				}
			}
			if !setsIRI {
				continue
			}
			nIRI++
			conds, ok := iriAdmissionAtoms(pm, cs.lit, 0)
			var extra []string
			hasScheme := false
			for _, t := range conds {
				switch {
				case strings.HasSuffix(t, "==nil") || strings.HasPrefix(t, "nil=="):
				case strings.Contains(t, ".Scheme)>0") || strings.Contains(t, ".Scheme)!=0") || strings.Contains(t, ".Scheme)>=1") || strings.Contains(t, ".Scheme!=\"\"") || strings.HasSuffix(t, ".IsAbs()"):
					hasScheme = true
				case t == "ok" || strings.HasSuffix(t, "ok") && !strings.Contains(t, "!"):
				case strings.HasSuffix(t, "!=nil") && !strings.Contains(t, "err"):
					// the parsed URL / the helper's result is there
				default:
					extra = append(extra, t)
				}
			}
			res.check(ok && hasScheme && len(extra) == 0, rule, fn, S.pos(cs.lit), pm.Name+" takes a string as an IRI exactly when it parses and has a scheme", fmt.Sprintf("scheme test present: %v; further conditions: %v — IRIs without a host (urn:, mailto:, as:Public, …) or other admitted IRIs are turned into unknown values for this property only", hasScheme, extra))
		}
		if pm.ElemDeser != nil {
			res.check(nIRI >= 1, rule, fn, S.pos(pm.ElemDeser), pm.Name+" has a branch that fills the iri member", "none")
		}
	}
}
