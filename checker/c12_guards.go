package main

import (
	"go/ast"
	"go/token"
	"go/types"
	"strings"
)

// Path conditions at a node, read off the statement structure: the conditions of the enclosing
// `if`s (then-branches), and the negations of the conditions of preceding guard clauses
// (`if C { return … }` / `continue`) in the enclosing blocks. Conjunctions are split, negations
// pushed through ||, !, == / != and the comparison operators. Each atom is returned as text.

func negateAtom(e ast.Expr) []ast.Expr {
	switch x := e.(type) {
	case *ast.ParenExpr:
		return negateAtom(x.X)
	case *ast.UnaryExpr:
		if x.Op == token.NOT {
			return splitConj(x.X)
		}
	case *ast.BinaryExpr:
		flip := map[token.Token]token.Token{token.EQL: token.NEQ, token.NEQ: token.EQL, token.LSS: token.GEQ, token.GEQ: token.LSS, token.GTR: token.LEQ, token.LEQ: token.GTR}
		if x.Op == token.LOR {
			return append(negateAtom(x.X), negateAtom(x.Y)...)
		}
		if f, ok := flip[x.Op]; ok {
			return []ast.Expr{&ast.BinaryExpr{X: x.X, Op: f, Y: x.Y}}
		}
	}
	return []ast.Expr{&ast.UnaryExpr{Op: token.NOT, X: e}}
}

func splitConj(e ast.Expr) []ast.Expr {
	if p, ok := e.(*ast.ParenExpr); ok {
		return splitConj(p.X)
	}
	if be, ok := e.(*ast.BinaryExpr); ok && be.Op == token.LAND {
		return append(splitConj(be.X), splitConj(be.Y)...)
	}
	if u, ok := e.(*ast.UnaryExpr); ok && u.Op == token.NOT {
		return negateAtom(u.X)
	}
	return []ast.Expr{e}
}

func endsInJump(b *ast.BlockStmt) bool {
	if len(b.List) == 0 {
		return false
	}
	switch x := b.List[len(b.List)-1].(type) {
	case *ast.ReturnStmt:
		return true
	case *ast.BranchStmt:
		return x.Tok == token.CONTINUE || x.Tok == token.BREAK
	}
	return false
}

func pathConditions(fd *ast.FuncDecl, n ast.Node) ([]ast.Expr, bool) {
	var out []ast.Expr
	found := false
	var stack []ast.Node
	ast.Inspect(fd.Body, func(m ast.Node) bool {
		if m == nil {
			stack = stack[:len(stack)-1]
			return true
		}
		if m == n {
			found = true
			full := append(append([]ast.Node{}, stack...), m)
			for i, anc := range full {
				switch a := anc.(type) {
				case *ast.IfStmt:
					if i+1 < len(full) {
						if full[i+1] == ast.Node(a.Body) {
							out = append(out, splitConj(a.Cond)...)
						} else if a.Else != nil && full[i+1] == a.Else {
							out = append(out, negateAtom(a.Cond)...)
						}
					}
				case *ast.BlockStmt:
					// guard clauses before the statement that leads to n
					if i+1 < len(full) {
						for _, st := range a.List {
							if st == full[i+1] {
								break
							}
							if ifs, ok := st.(*ast.IfStmt); ok && ifs.Else == nil && endsInJump(ifs.Body) {
								out = append(out, negateAtom(ifs.Cond)...)
							}
						}
					}
				}
			}
		}
		stack = append(stack, m)
		return true
	})
	return out, found
}

// iriAdmissionAtoms: the conditions under which the literal lit (which fills the iri member) is
// built, with a `u != nil` on the result of a same-package helper returning *url.URL replaced by
// the conditions under which that helper returns a non-nil URL.
func iriAdmissionAtoms(pm *PropModel, lit ast.Node, depth int) ([]string, bool) {
	info := pm.G.Pkg.TypesInfo
	var home *ast.FuncDecl
	for _, fd := range pm.G.Funcs {
		if fd.Body != nil && fd.Pos() <= lit.Pos() && lit.End() <= fd.End() {
			home = fd
		}
	}
	if home == nil {
		return nil, false
	}
	conds, ok := pathConditions(home, lit)
	if !ok {
		return nil, false
	}
	var out []string
	for _, c := range conds {
		// u != nil where u := helper(…) returns *url.URL
		if be, isBe := c.(*ast.BinaryExpr); isBe && be.Op == token.NEQ && isIdentNamed(be.Y, "nil") && depth < 2 {
			if id, isId := be.X.(*ast.Ident); isId {
				if call := definingCall(info, home, id); call != nil {
					if f := calleeFunc(info, call); f != nil {
						if hd := pm.G.Funcs[f.Name()]; hd != nil && hd.Body != nil && strings.HasSuffix(types.ExprString(hd.Type.Results.List[0].Type), "url.URL") {
							okAll := true
							ast.Inspect(hd.Body, func(m ast.Node) bool {
								r, isR := m.(*ast.ReturnStmt)
								if !isR || len(r.Results) == 0 || isIdentNamed(r.Results[0], "nil") {
									return true
								}
								sub, ok2 := pathConditions(hd, r)
								if !ok2 {
									okAll = false
								}
								for _, s := range sub {
									out = append(out, strings.ReplaceAll(types.ExprString(s), " ", ""))
								}
								return true
							})
							if okAll {
								continue
							}
						}
					}
				}
			}
		}
		out = append(out, strings.ReplaceAll(types.ExprString(c), " ", ""))
	}
	return out, true
}

// definingCall: the call expression a local is defined by (x := f(…) or `if x := f(…); …`).
func definingCall(info *types.Info, fd *ast.FuncDecl, id *ast.Ident) *ast.CallExpr {
	obj := info.ObjectOf(id)
	var out *ast.CallExpr
	ast.Inspect(fd.Body, func(n ast.Node) bool {
		as, ok := n.(*ast.AssignStmt)
		if !ok || len(as.Rhs) != 1 {
			return true
		}
		for _, l := range as.Lhs {
			if li, ok := l.(*ast.Ident); ok && info.ObjectOf(li) == obj {
				if c, ok := as.Rhs[0].(*ast.CallExpr); ok {
					out = c
				}
			}
		}
		return true
	})
	return out
}
