package main

import (
	"fmt"
	"go/token"

	"golang.org/x/tools/go/ssa"
)

// C05-R6a — "every actor added to EACH object's attributedTo": whether actor k
// is already attributed on object i must be decided from object i's own
// attributedTo entries. Structurally: where an IRI is appended to the
// attributedTo property of op.At(i), the membership test that guards the
// append looks k up in a set selected by that same i (sets[i]) — not in one
// set shared by all objects (an actor one object names would then be missing
// from all the others).
func checkAttributionPerObject(res *Result, p *Pub, rule string) {
	fn := p.MustFunc(res, rule, "SocialWrappedCallbacks.create")
	if fn == nil {
		return
	}
	ff := computeFacts(fn)
	n := 0
	for _, ci := range callsIn(fn) {
		cc := ci.Common()
		if !cc.IsInvoke() || cc.Method.Name() != "AppendIRI" {
			continue
		}
		// receiver derives from GetActivityStreamsAttributedTo of op.At(i)
		var at *ssa.Call
		isAttr := false
		// the receiver's own provenance: getter-of-getter chain, through assertions and merges only
		var chain func(v ssa.Value, d int)
		chain = func(v ssa.Value, d int) {
			if d > 12 || v == nil {
				return
			}
			switch x := unwrap(v).(type) {
			case *ssa.Call:
				if x.Common().IsInvoke() {
					switch x.Common().Method.Name() {
					case "GetActivityStreamsAttributedTo":
						isAttr = true
					case "At":
						if at == nil {
							at = x
						}
						return
					}
					chain(x.Common().Value, d+1)
				}
			case *ssa.Extract:
				chain(x.Tuple, d+1)
			case *ssa.TypeAssert:
				chain(x.X, d+1)
			case *ssa.Phi:
				for _, e := range x.Edges {
					chain(e, d+1)
				}
			}
		}
		chain(cc.Value, 0)
		if !isAttr || at == nil {
			continue
		}
		n++
		idx := unwrap(at.Common().Args[0])
		// membership tests known false here
		s := ff.at[ci]
		var guards []*ssa.Lookup
		if s != nil {
			for v := range ff.ids {
				ex, ok := v.(*ssa.Extract)
				if !ok || ex.Index != 1 {
					continue
				}
				l, ok := ex.Tuple.(*ssa.Lookup)
				if !ok || !l.CommaOk {
					continue
				}
				if s.facts[fact{ff.canon(s, ex), fFALSE, ""}] {
					guards = append(guards, l)
				}
			}
		}
		if len(guards) == 0 {
			res.ok(rule, fname(fn), p.pos(ci), "attribution append (no membership guard to examine)")
			continue
		}
		okSel := false
		detail := ""
		for _, l := range guards {
			m := l.X
			// the map is an element of a slice of sets, selected by the object's index
			var sel ssa.Value
			switch x := m.(type) {
			case *ssa.UnOp:
				if x.Op == token.MUL {
					if ia, ok := x.X.(*ssa.IndexAddr); ok {
						sel = ia.Index
					}
				}
			case *ssa.Index:
				sel = x.Index
			case *ssa.Lookup:
				sel = x.Index
			}
			if sel != nil && unwrap(sel) == idx {
				okSel = true
			} else if sel == nil {
				detail = fmt.Sprintf("the guard looks the actor up in %s, one set for all objects, while the append goes to the object at index %s", valueLabel(m), valueLabel(idx))
			} else {
				detail = fmt.Sprintf("the set consulted is selected by %s, the object appended to by %s", valueLabel(sel), valueLabel(idx))
			}
		}
		res.check(okSel, rule, fname(fn), p.pos(ci), "whether an actor is already attributed is decided per object: the set consulted is the one of the object appended to", detail+": an actor named by one object is then never added to the others")
	}
	res.Count(rule+" attribution appends", n, 1)
}
