package main

import (
	"fmt"
	"go/types"

	"golang.org/x/tools/go/ssa"
)

// "A nil error is an answer, not a default": in a function whose nil error means "a callback has
// taken the value", a nil constant may reach a return only along paths on which such a call has
// happened. The rule follows the returned value back through phis; a nil constant that arrives
// over an edge (or sits in a return) not dominated by a witness call is reported with that edge.

type nilLeaf struct {
	at  *ssa.BasicBlock // block at whose end the nil constant is chosen
	pos string
}

func nilLeavesOf(v ssa.Value, at *ssa.BasicBlock, seen map[ssa.Value]bool, out *[]nilLeaf) {
	switch x := v.(type) {
	case *ssa.Const:
		if x.IsNil() {
			*out = append(*out, nilLeaf{at: at})
		}
	case *ssa.Phi:
		if seen[x] {
			return
		}
		seen[x] = true
		for i, e := range x.Edges {
			nilLeavesOf(e, x.Block().Preds[i], seen, out)
		}
	case *ssa.ChangeInterface:
		nilLeavesOf(x.X, at, seen, out)
	case *ssa.MakeInterface:
		// a typed value in an error interface is non-nil
	}
}

// checkNilOnlyAfter: result idx of every return of fn (and of its anonymous functions when
// withClosures) is a nil constant only where a witness call dominates.
func checkNilOnlyAfter(res *Result, rule string, fn *ssa.Function, idx int, withClosures bool, isWitness func(ssa.CallInstruction) bool, what string) int {
	n := 0
	var fns []*ssa.Function
	fns = append(fns, fn)
	if withClosures {
		fns = append(fns, fn.AnonFuncs...)
	}
	for _, f := range fns {
		if len(f.Blocks) == 0 {
			continue
		}
		sig := f.Signature.Results()
		k := idx
		if f != fn {
			// closures: the last result when it is an error
			k = sig.Len() - 1
		}
		if k < 0 || k >= sig.Len() || !types.Identical(sig.At(k).Type(), types.Universe.Lookup("error").Type()) {
			continue
		}
		witnessBlocks := map[*ssa.BasicBlock]bool{}
		for _, b := range f.Blocks {
			for _, in := range b.Instrs {
				if c, ok := in.(ssa.CallInstruction); ok && isWitness(c) {
					witnessBlocks[b] = true
				}
			}
		}
		dominatedByWitness := func(b *ssa.BasicBlock) bool {
			for d := b; d != nil; d = d.Idom() {
				if witnessBlocks[d] {
					return true
				}
			}
			return false
		}
		for _, b := range f.Blocks {
			r, ok := b.Instrs[len(b.Instrs)-1].(*ssa.Return)
			if !ok || k >= len(r.Results) {
				continue
			}
			n++
			var leaves []nilLeaf
			nilLeavesOf(r.Results[k], b, map[ssa.Value]bool{}, &leaves)
			bad := ""
			for _, l := range leaves {
				if !dominatedByWitness(l.at) {
					bad = fmt.Sprintf("a nil constant reaches this return over block %d of %s, which is not dominated by %s", l.at.Index, f.Name(), what)
					break
				}
			}
			res.check(bad == "", rule, f.String(), relPos(f.Prog.Fset, r.Pos()), "a nil error is returned only where "+what+" has happened", bad+": the caller is told the value was handled although nothing took it")
		}
	}
	return n
}
