package main

func checkC08Dup(res *Result, p *Pub) {}
