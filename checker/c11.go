package main

// C11 — hostile input cannot crash or hang the decoder or the handlers.
//
// Three families of crash are visible in the shape of the code:
//   R1  (E6) use of an optional vocabulary getter's result without a nil guard
//   R1b      use of GetIRI()/Get() results where the element is not known to be an IRI
//   R2  (E7) index/slice expressions the compiler cannot prove in bounds, in
//            code reachable from the decode/handler entry points
//   R3       recursion that is neither depth-guarded nor structural
//   R4       loops without a post statement that may not make progress

import (
	"encoding/json"
	"fmt"
	"go/ast"
	"go/token"
	"go/types"
	"os"
	"os/exec"
	"path/filepath"
	"regexp"
	rsyntax "regexp/syntax"
	"sort"
	"strconv"
	"strings"

	"golang.org/x/tools/go/ssa"
)

// nilableSource: v is the result of an optional getter: a zero-argument
// Get…/Begin invoke (or static call) returning a vocab interface, which is nil
// when the member is absent / the list is empty.
func nilableSource(v ssa.Value) (string, bool) {
	// the value streams.ToType returns is nil whenever its error is not (unknown type, garbage)
	if ex, ok := v.(*ssa.Extract); ok && ex.Index == 0 {
		if c, ok := ex.Tuple.(*ssa.Call); ok && staticName(c) == "streams.ToType" {
			return "streams.ToType", true
		}
	}
	c, ok := v.(*ssa.Call)
	if !ok {
		return "", false
	}
	cc := c.Common()
	name := ""
	if cc.IsInvoke() {
		name = cc.Method.Name()
	} else if f := cc.StaticCallee(); f != nil {
		name = f.Name()
	}
	if !(strings.HasPrefix(name, "Get") || name == "Begin" || name == "Next" || name == "Prev") {
		return "", false
	}
	if !isVocabIface(c.Type()) {
		return "", false
	}
	if !cc.IsInvoke() {
		return "", false
	}
	return name, true
}

// derefSummary: which interface-typed parameters a pub function dereferences
// (invokes a method on, or hands to a function that does) without a nil guard.
type derefSummary struct {
	p    *Pub
	memo map[*ssa.Function]map[int]bool
}

func (d *derefSummary) of(fn *ssa.Function) map[int]bool {
	if m, ok := d.memo[fn]; ok {
		return m
	}
	m := map[int]bool{}
	d.memo[fn] = m
	if fn.Blocks == nil {
		return m
	}
	ff := computeFacts(fn)
	for i, prm := range fn.Params {
		if _, ok := prm.Type().Underlying().(interface{ NumMethods() int }); !ok {
			continue
		}
		for _, u := range nilUses(d, fn, prm) {
			if !ff.has(u.ins, prm, fNONNIL, "") {
				m[i] = true
			}
		}
	}
	return m
}

type nilUse struct {
	ins  ssa.Instruction
	what string
}

// nilUses lists the instructions that would panic if v were nil: invokes on v
// (through interface conversions), and calls passing v to a pub function that
// dereferences that parameter.
func nilUses(d *derefSummary, fn *ssa.Function, v ssa.Value) []nilUse {
	var out []nilUse
	seen := map[ssa.Value]bool{}
	var walk func(val ssa.Value)
	walk = func(val ssa.Value) {
		if seen[val] || val.Referrers() == nil {
			return
		}
		seen[val] = true
		for _, ref := range *val.Referrers() {
			switch r := ref.(type) {
			case ssa.CallInstruction:
				cc := r.Common()
				if cc.IsInvoke() && cc.Value == val {
					out = append(out, nilUse{ref, "." + cc.Method.Name() + "()"})
				} else if cal := cc.StaticCallee(); cal != nil && cal.Pkg == d.p.SSA && !cc.IsInvoke() {
					for ai, a := range cc.Args {
						if a == val && d.of(cal)[ai] {
							out = append(out, nilUse{ref, "passed to " + fname(cal) + " (which uses it unconditionally)"})
						}
					}
				} else if cal := cc.StaticCallee(); cal != nil && cal.Pkg != nil && cal.Pkg.Pkg.Path() == modPath+"/streams" && !cc.IsInvoke() {
					// the functions of package streams that take a vocab.Type (the hierarchy
					// predicates, Serialize) call a method on it first thing
					for _, a := range cc.Args {
						if a == val && isVocabIface(a.Type()) {
							out = append(out, nilUse{ref, "passed to streams." + cal.Name() + " (which calls a method on it)"})
						}
					}
				}
			case *ssa.ChangeInterface:
				walk(r)
			case *ssa.MakeInterface:
				walk(r)
			case *ssa.Phi:
				// handled through the facts of the phi itself
			}
		}
	}
	walk(v)
	return out
}

// precondition: a reviewed interprocedural reason why a getter result cannot
// be nil at a use, with a witness re-verified on every run.
type precondition struct {
	fn, getter string
	reason     string
	witness    func(p *Pub, E *Effects) (bool, string)
}

func witnessInboxIDChecked(p *Pub, E *Effects) (bool, string) {
	// PostInboxScheme answers 400 when GetJSONLDId() == nil before any delegate call that receives the activity
	fn := p.Func("baseActor.PostInboxScheme")
	if fn == nil {
		return false, "PostInboxScheme not found"
	}
	ff := computeFacts(fn)
	var idCall *ssa.Call
	for _, ci := range callsIn(fn) {
		if c, ok := ci.(*ssa.Call); ok && c.Common().IsInvoke() && c.Common().Method.Name() == "GetJSONLDId" {
			idCall = c
		}
	}
	if idCall == nil {
		return false, "PostInboxScheme no longer tests GetJSONLDId()"
	}
	for _, pat := range []string{"delegate.AuthorizePostInbox", "delegate.PostInbox", "delegate.InboxForwarding"} {
		for _, c := range findCalls(E, fn, pat) {
			if !ff.has(c, idCall, fNONNIL, "") {
				return false, pat + " is reachable with a nil id"
			}
			if ok, why := inboxIDUsableAt(ff, c); !ok {
				return false, pat + ": " + why
			}
		}
	}
	return true, "PostInboxScheme reaches AuthorizePostInbox / PostInbox / InboxForwarding only where activity.GetJSONLDId() != nil and holds an IRI"
}

func witnessOutboxIDSet(p *Pub, E *Effects) (bool, string) {
	// AddNewIDs unconditionally installs a fresh id property; deliver orders it before PostOutbox and the 201
	fn := p.Func("sideEffectActor.AddNewIDs")
	if fn == nil {
		return false, "AddNewIDs not found"
	}
	ff := computeFacts(fn)
	okSet := false
	for _, ci := range callsIn(fn) {
		cc := ci.Common()
		if cc.IsInvoke() && cc.Method.Name() == "SetJSONLDId" && isParamNamed(cc.Value, "activity") {
			// argument is a constructor result
			if c, ok := unwrap(cc.Args[0]).(*ssa.Call); ok && staticName(c) == "streams.NewJSONLDIdProperty" {
				// on every success return
				okSet = true
				for _, r := range returnsIn(fn) {
					mn, _ := ff.errStatus(r, 0)
					if mn && !dominates(ci, r) {
						okSet = false
					}
				}
			}
		}
	}
	if !okSet {
		return false, "AddNewIDs does not install a fresh id property on every success path"
	}
	d := p.Func("baseActor.deliver")
	if d == nil {
		return false, "deliver not found"
	}
	an := findCalls(E, d, "delegate.AddNewIDs")
	po := findCalls(E, d, "delegate.PostOutbox")
	if len(an) != 1 || len(po) != 1 || !dominates(an[0], po[0]) {
		return false, "deliver no longer runs AddNewIDs before PostOutbox"
	}
	return true, "AddNewIDs sets a fresh JSONLDIdProperty on every success path and deliver runs it before PostOutbox and before the 201 is built"
}

func witnessActorChecked(p *Pub, E *Effects) (bool, string) {
	// AuthorizePostInbox fails when GetActivityStreamsActor() == nil; C07-R4 orders it before PostInbox
	fn := p.Func("sideEffectActor.AuthorizePostInbox")
	if fn == nil {
		return false, "AuthorizePostInbox not found"
	}
	ff := computeFacts(fn)
	var ac *ssa.Call
	for _, ci := range callsIn(fn) {
		if c, ok := ci.(*ssa.Call); ok && c.Common().IsInvoke() && c.Common().Method.Name() == "GetActivityStreamsActor" {
			ac = c
		}
	}
	if ac == nil {
		return false, "AuthorizePostInbox no longer reads the actor property"
	}
	for _, r := range returnsIn(fn) {
		v := ff.resolve(r, r.Results[0])
		if b, isC := boolConst(v); isC && !b {
			continue
		}
		if !ff.has(r, ac, fNONNIL, "") {
			return false, "AuthorizePostInbox can authorize an activity without actor"
		}
	}
	return true, "AuthorizePostInbox authorizes only where activity.GetActivityStreamsActor() != nil, and PostInboxScheme calls it before PostInbox (C07-R4)"
}

func witnessObjectRequired(fnName string) func(p *Pub, E *Effects) (bool, string) {
	return func(p *Pub, E *Effects) (bool, string) {
		fn := p.Func(fnName)
		if fn == nil {
			return false, fnName + " not found"
		}
		ff := computeFacts(fn)
		g := getterOnParam(fn, 2, "GetActivityStreamsObject")
		if g == nil {
			return false, "no object read"
		}
		for _, c := range findCalls(E, fn, "normalizeRecipients") {
			if !ff.has(c, g, fNONNIL, "") {
				return false, "normalizeRecipients reachable with a nil object property"
			}
		}
		return true, fnName + " returns ErrObjectRequired for a nil/empty object before calling normalizeRecipients"
	}
}

func witnessNormalizeEmbedded(p *Pub, E *Effects) (bool, string) {
	// normalizeRecipients returns an error for every element that is not an embedded value (type assertion on GetType() fails for nil)
	fn := p.Func("normalizeRecipients")
	if fn == nil {
		return false, "normalizeRecipients not found"
	}
	n := 0
	for _, b := range fn.Blocks {
		for _, ins := range b.Instrs {
			if ta, ok := ins.(*ssa.TypeAssert); ok && ta.CommaOk {
				if c, ok := ta.X.(*ssa.Call); ok && c.Common().IsInvoke() && c.Common().Method.Name() == "GetType" {
					n++
				}
			}
		}
	}
	if n < 5 {
		return false, "normalizeRecipients no longer rejects non-embedded objects"
	}
	fnc := p.Func("SocialWrappedCallbacks.create")
	if fnc == nil {
		return false, "social create not found"
	}
	ff := computeFacts(fnc)
	norm := findCalls(E, fnc, "normalizeRecipients")
	if len(norm) != 1 {
		return false, "social create does not call normalizeRecipients once"
	}
	for _, c := range findCalls(E, fnc, "SocialWrappedCallbacks.create$1") {
		if !ff.has(c, norm[0].(ssa.Value), fNIL, "") {
			return false, "objects are stored without normalizeRecipients having succeeded"
		}
	}
	return true, "normalizeRecipients fails for any object that is not an embedded value (comma-ok assertions on GetType()), and social create stores objects only after it succeeded"
}

func witnessAttrInstalled(p *Pub, E *Effects) (bool, string) {
	fn := p.Func("SocialWrappedCallbacks.create")
	if fn == nil {
		return false, "social create not found"
	}
	// the first loop installs a non-nil attributedTo on every attributedToer
	for _, b := range fn.Blocks {
		for _, ins := range b.Instrs {
			if phi, ok := ins.(*ssa.Phi); ok && len(phi.Edges) == 2 {
				var g, n bool
				for _, e := range phi.Edges {
					if c, ok := unwrap(e).(*ssa.Call); ok {
						if c.Common().IsInvoke() && c.Common().Method.Name() == "GetActivityStreamsAttributedTo" {
							g = true
						}
						if staticName(c) == "streams.NewActivityStreamsAttributedToProperty" {
							n = true
						}
					}
				}
				if g && n {
					return true, "the first loop of social create installs a fresh attributedTo property wherever it was nil (fresh-on-nil rule C05-R6k) before the second loop reads it"
				}
			}
		}
	}
	return false, "social create no longer installs attributedTo before re-reading it"
}

var preconditions = []precondition{
	{"sideEffectActor.addToInboxIfNew", "GetJSONLDId", "the activity id was checked by PostInboxScheme", witnessInboxIDChecked},
	{"sideEffectActor.InboxForwarding", "GetJSONLDId", "the activity id was checked by PostInboxScheme", witnessInboxIDChecked},
	{"sideEffectActor.addToOutbox", "GetJSONLDId", "AddNewIDs installed an id", witnessOutboxIDSet},
	{"baseActor.PostOutboxScheme", "GetJSONLDId", "AddNewIDs installed an id on the activity deliver returns", witnessOutboxIDSet},
	{"FederatingWrappedCallbacks.follow", "GetActivityStreamsActor", "AuthorizePostInbox rejected activities without actor", witnessActorChecked},
	{"normalizeRecipients", "GetActivityStreamsObject", "social create checked the object property", witnessObjectRequired("SocialWrappedCallbacks.create")},
	{"SocialWrappedCallbacks.create$1", "GetType", "normalizeRecipients rejected non-embedded objects", witnessNormalizeEmbedded},
	{"SocialWrappedCallbacks.create", "GetActivityStreamsAttributedTo", "installed by the first loop", witnessAttrInstalled},
}

var bceLine = regexp.MustCompile(`^(.*?):(\d+):(\d+): Found (IsInBounds|IsSliceInBounds)`)

// reviewedBounds: unproven bounds checks that are safe for a stated reason,
// keyed by (file suffix, function).
var reviewedBounds = []struct{ file, fn, reason string }{
	{"streams/values/duration/gen_duration.go", "DeserializeDuration:res", "res is the submatch slice of a regexp with 7 groups that matches every string starting with 'P' (all groups optional); the 'P' test precedes it"},
	{"streams/values/duration/gen_duration.go", "DeserializeDuration:n", "nX[:len(nX)-1] is guarded by len(nX) > 0"},
	{"pub/util.go", "filterURLs", "u[i] with i < len(u) from the loop condition; u[:i], u[i+1:] likewise"},
	{"pub/util.go", "addResponseHeaders", "hashed[:] is the full slice of a fixed-size [32]byte array"},
	{"pub/util.go", "normalizeRecipients", "objsK[i] with i < o.Len() == len(objsK) (slices made with that length)"},
	{"pub/social_wrapped_callbacks.go", "SocialWrappedCallbacks.create", "objectAttributedToIds[i] with i < op.Len() == len(objectAttributedToIds)"},
}

func checkC11(res *Result) {
	p := loadPub()
	E := computeEffects(p)
	res.Packages = []string{p.Pkg.PkgPath, modPath + "/streams/values/..."}
	res.Explanation = "Absence of panics in general is not decidable here; four families of crash/hang that are visible in the shape of the code are decided for all of package pub (and, for bounds, the literal codecs): (R1) every result of an optional vocabulary getter (Get…(), Begin(), Next()) that is used as a method receiver, or handed to a function that uses that parameter unconditionally (summaries computed bottom-up), is known non-nil at the use by the must-facts of E2 — or is covered by a reviewed interprocedural precondition whose witness is re-verified on every run; (R1b) GetIRI() is used only where IsIRI() is known true; (R2) every index/slice expression the compiler's prove pass cannot show in bounds (go build -gcflags=-d=ssa/check_bce) in pub and streams/values is in a reviewed table with its reason; (R3) every recursive cycle in pub is depth-guarded or structural; (R4) every loop without a post statement makes progress on every path."
	res.Rule("C11-R1", "optional-getter nil guard: a Get…/Begin/Next result of vocabulary type is known non-nil wherever it is used as a receiver or passed to a function that dereferences it")
	res.Rule("C11-R1b", "GetIRI() only where the element is known to be an IRI (IsIRI() true): otherwise the nil URL reaches Database/Transport code")
	res.Rule("C11-R1p", "reviewed interprocedural preconditions: each carries a witness that is re-verified on this tree")
	res.Rule("C11-R2", "compiler-unproven bounds checks in pub and streams/values are reviewed one by one (function + reason); a new one is a finding")
	res.Rule("C11-R3", "recursion is depth-guarded (guard dominates the recursive call, depth+1 passed) or structural (the argument is a strict sub-value of the parameter)")
	res.Rule("C11-R4", "a loop without post statement advances its index or shrinks its container on every path, or is a non-blocking drain")

	d := &derefSummary{p: p, memo: map[*ssa.Function]map[int]bool{}}
	preByKey := map[string]*precondition{}
	for i := range preconditions {
		pc := &preconditions[i]
		preByKey[pc.fn+"|"+pc.getter] = pc
	}
	witnessDone := map[string]bool{}
	usedPre := map[string]bool{}
	nSrc, nUse := 0, 0
	for _, fn := range p.Funcs {
		ff := computeFacts(fn)
		name := fname(fn)
		for _, b := range fn.Blocks {
			for _, ins := range b.Instrs {
				v, ok := ins.(ssa.Value)
				if !ok {
					continue
				}
				getter, ok := nilableSource(v)
				if !ok {
					// R1b
					if c, isCall := ins.(*ssa.Call); isCall && c.Common().IsInvoke() && c.Common().Method.Name() == "GetIRI" && isVocabIface(c.Common().Value.Type()) {
						okIRI := false
						s := ff.at[c]
						if s != nil {
							want := "get:" + ff.canon(s, c.Common().Value) + ".IsIRI"
							okIRI = s.facts[fact{want, fTRUE, ""}]
						}
						nUse++
						res.check(okIRI, "C11-R1b", name, p.pos(c), "GetIRI() on "+valueLabel(c.Common().Value)+" only where IsIRI() is known true", "an element that is neither an embedded value nor an IRI (e.g. a number where an object is expected) yields a nil URL here, which is then locked, looked up or dereferenced; facts: "+ff.describe(c))
					}
					continue
				}
				nSrc++
				// uses of v and of phis/loads it flows into are judged at the use through the facts of the used value
				for _, u := range nilUses(d, fn, v) {
					nUse++
					if ff.has(u.ins, v, fNONNIL, "") {
						res.ok("C11-R1", name, p.pos(u.ins), getter+"() result used as "+u.what+" under a nil guard")
						continue
					}
					if ex, isEx := v.(*ssa.Extract); isEx && getter == "streams.ToType" {
						// ToType yields a value whenever its error is nil: follow the paths from
						// the call to this use, remembering the outcome of each test on the error
						if tc, isCall := ex.Tuple.(*ssa.Call); isCall {
							if ee := extractOf(tc, 1); ee != nil && errNilOnAllPathsTo(fn, tc, ee, u.ins) {
								res.ok("C11-R1", name, p.pos(u.ins), "streams.ToType() result used as "+u.what+" only on paths where its error is nil")
								continue
							}
						}
					}
					key := name + "|" + getter
					if pc := preByKey[key]; pc != nil {
						usedPre[key] = true
						if !witnessDone[key] {
							witnessDone[key] = true
							ok, why := pc.witness(p, E)
							res.check(ok, "C11-R1p", name, p.pos(u.ins), "precondition for "+getter+"() in "+name+": "+pc.reason, why)
						}
						continue
					}
					res.bad("C11-R1", name, p.pos(u.ins), getter+"() result is known non-nil where it is used as "+u.what, "the getter returns nil when the member is absent (or the list empty): a document lacking it panics here; facts: "+ff.describe(u.ins))
				}
			}
			// phis merging nilable values: uses of the phi
			for _, ins := range b.Instrs {
				phi, ok := ins.(*ssa.Phi)
				if !ok {
					break
				}
				if !isVocabIface(phi.Type()) {
					continue
				}
				src := ""
				for _, e := range phi.Edges {
					if g, ok := nilableSource(unwrap(e)); ok {
						src = g
					}
				}
				if src == "" {
					continue
				}
				for _, u := range nilUses(d, fn, phi) {
					nUse++
					if ff.has(u.ins, phi, fNONNIL, "") {
						res.ok("C11-R1", name, p.pos(u.ins), src+"() result (merged) used as "+u.what+" under a nil guard")
						continue
					}
					// a merge of a helper's exits, of which only the successful one can reach this use
					if rv := ff.resolveAt(u.ins, phi); rv != ssa.Value(phi) && ff.has(u.ins, rv, fNONNIL, "") {
						res.ok("C11-R1", name, p.pos(u.ins), src+"() result (the only exit that can reach this use) used as "+u.what+" under a nil guard")
						continue
					}
					key := name + "|" + src
					if pc := preByKey[key]; pc != nil {
						usedPre[key] = true
						if !witnessDone[key] {
							witnessDone[key] = true
							ok, why := pc.witness(p, E)
							res.check(ok, "C11-R1p", name, p.pos(u.ins), "precondition for "+src+"() in "+name+": "+pc.reason, why)
						}
						continue
					}
					res.bad("C11-R1", name, p.pos(u.ins), src+"() result (merged with another value) is known non-nil where it is used as "+u.what, "facts: "+ff.describe(u.ins))
				}
			}
		}
	}
	for k := range preByKey {
		if !usedPre[k] {
			fmt.Printf("NOTE: reviewed precondition no longer needed: %s\n", k)
		}
	}
	res.Count("optional getter results examined", nSrc, 80)
	res.Count("dereferencing uses examined", nUse, 60)
	res.Functions = len(p.Funcs)

	// type assertions without the comma-ok form on vocabulary values
	nTA := 0
	for _, fn := range p.Funcs {
		for _, b := range fn.Blocks {
			for _, ins := range b.Instrs {
				if ta, ok := ins.(*ssa.TypeAssert); ok && !ta.CommaOk {
					if ta.AssertedType == ta.X.Type() || ta.AssertedType.String() == ta.X.Type().String() {
						continue // compiler-inserted nil check of an interface method value (x.M with x of the asserted type)
					}
					nTA++
					res.bad("C11-R1", fname(fn), p.pos(ta), "type assertions on decoded values use the comma-ok form", "x.("+typeShort(ta.AssertedType)+") panics when the value is of another type")
				}
			}
		}
	}
	if nTA == 0 {
		res.ok("C11-R1", "pub", "-", "no type assertion without comma-ok in package pub")
	}

	// R2
	checkBounds(res)

	// R3 recursion
	rec := map[string]string{}
	for _, fn := range p.Funcs {
		for _, ci := range E.byFn[fn] {
			for _, c := range ci.Callees {
				if c == fn {
					rec[fname(fn)] = p.pos(ci.Instr)
				}
			}
		}
	}
	// mutual recursion: strongly connected components of size > 1
	idx := map[*ssa.Function]int{}
	low := map[*ssa.Function]int{}
	on := map[*ssa.Function]bool{}
	var stack []*ssa.Function
	n := 0
	var sccs [][]*ssa.Function
	var strong func(f *ssa.Function)
	strong = func(f *ssa.Function) {
		n++
		idx[f], low[f] = n, n
		stack = append(stack, f)
		on[f] = true
		for _, ci := range E.byFn[f] {
			for _, c := range ci.Callees {
				if _, inPub := E.byFn[c]; !inPub && len(c.Blocks) == 0 {
					continue
				}
				if idx[c] == 0 {
					strong(c)
					if low[c] < low[f] {
						low[f] = low[c]
					}
				} else if on[c] && idx[c] < low[f] {
					low[f] = idx[c]
				}
			}
		}
		if low[f] == idx[f] {
			var comp []*ssa.Function
			for {
				x := stack[len(stack)-1]
				stack = stack[:len(stack)-1]
				on[x] = false
				comp = append(comp, x)
				if x == f {
					break
				}
			}
			if len(comp) > 1 {
				sccs = append(sccs, comp)
			}
		}
	}
	for _, f := range p.Funcs {
		if idx[f] == 0 {
			strong(f)
		}
	}
	for _, comp := range sccs {
		var names []string
		for _, f := range comp {
			names = append(names, fname(f))
		}
		sort.Strings(names)
		// resolver dispatch makes every wrapped callback a callee of PostInbox/PostOutbox; a cycle through Deliver → … is not expected
		res.bad("C11-R3", names[0], "-", "no mutually recursive cycle among pub functions", "cycle: "+strings.Join(names, " → "))
	}
	var recNames []string
	for n := range rec {
		recNames = append(recNames, n)
	}
	sort.Strings(recNames)
	for _, name := range recNames {
		switch name {
		case "sideEffectActor.resolveActors":
			checkDepthGuard(res, p, E, "C11-R3", name, "depth", "maxDepth", nil)
		case "sideEffectActor.hasInboxForwardingValues":
			checkDepthGuard(res, p, E, "C11-R3", name, "currDepth", "maxDepth", nil)
		default:
			// structural: the recursive argument derives from a getter on the parameter (a strict sub-value)
			fn := p.Func(name)
			g := flowOf(fn)
			ok := false
			for _, ci := range E.byFn[fn] {
				for _, c := range ci.Callees {
					if c == fn {
						arg := ci.Instr.Common().Args[0]
						fromParam := anyBackward(g, arg, func(x ssa.Value) bool { return x == ssa.Value(fn.Params[0]) })
						viaGetter := anyBackward(g, arg, func(x ssa.Value) bool {
							cc, ok := x.(*ssa.Call)
							return ok && cc.Common().IsInvoke() && strings.HasPrefix(cc.Common().Method.Name(), "Get")
						})
						ok = fromParam && viaGetter && unwrap(arg) != ssa.Value(fn.Params[0])
					}
				}
			}
			res.check(ok, "C11-R3", name, rec[name], name+" recurses only into strict sub-values of its argument (structural recursion over a finite decoded tree)", "the recursive argument is not a component obtained from the parameter")
		}
	}
	res.Count("recursive functions in pub", len(rec), 3)
	// cleanFnRecur in streams.Serialize (closure recursion over nested maps)
	res.Extra["recursion_outside_pub"] = "streams.Serialize$cleanFnRecur and the generated (de)serialisers recurse structurally over the decoded JSON tree (finite); they are generated from one template and exercised by every example document"

	// R4 loops without post statement
	nLoops := 0
	for _, f := range p.Pkg.Syntax {
		if isTestFile(p.Fset, f.Pos()) {
			continue
		}
		ast.Inspect(f, func(n ast.Node) bool {
			fs, ok := n.(*ast.ForStmt)
			if !ok || fs.Post != nil {
				return true
			}
			nLoops++
			pos := relPos(p.Fset, fs.Pos())
			encl := enclosingFuncName(p, fs.Pos())
			kind := ""
			// (a) in-place filter: verified by checkInPlaceFilterLoop; (b) `for { select { …; default: break } }` drain
			hasSelectDefault := false
			removes := false
			ast.Inspect(fs.Body, func(m ast.Node) bool {
				switch x := m.(type) {
				case *ast.SelectStmt:
					for _, cl := range x.Body.List {
						if cc, ok := cl.(*ast.CommClause); ok && cc.Comm == nil {
							for _, st := range cc.Body {
								if br, ok := st.(*ast.BranchStmt); ok && br.Tok == token.BREAK && br.Label != nil {
									hasSelectDefault = true
								}
							}
						}
					}
				case *ast.CallExpr:
					if sel, ok := x.Fun.(*ast.SelectorExpr); ok && sel.Sel.Name == "Remove" {
						removes = true
					}
					if isIdentNamed(x.Fun, "append") && x.Ellipsis.IsValid() {
						removes = true
					}
				}
				return true
			})
			switch {
			case fs.Cond == nil && fs.Init == nil && singleIteration(f, fs):
				// `L: for { …; break L }` with no continue: the body runs once (a block with early exits)
				nLoops--
			case fs.Cond == nil && hasSelectDefault:
				kind = "non-blocking drain (select with default: break)"
				res.ok("C11-R4", encl, pos, "loop without post statement terminates: "+kind)
			case removes:
				kind = "in-place filter"
				// delegated to the index-discipline rule, which also proves progress
				before := len(res.Obligs)
				checkInPlaceFilterLoop(res, p, "C11-R4", encl, 1)
				_ = before
			default:
				res.bad("C11-R4", encl, pos, "loop without post statement is of a recognised terminating form", "neither an in-place filter nor a non-blocking drain")
			}
			return true
		})
	}
	res.Count("loops without post statement", nLoops, 4)

	res.Rule("C11-R5", "iterators decoded from a request body are walkable: every decoder of a non-functional property sets parent and myIdx of every element it produces (Next/Prev dereference parent; shared with C18-R1)")
	checkDecodedContainers(res, "C11-R5", "Next()/Prev() of such an element call parent.Len() on a nil interface or step from the wrong index: a panic or an endless walk reachable from a request body")
	res.Assumptions = append(res.Assumptions,
		"a vocabulary getter may return nil (it returns the struct field); At(i) within bounds returns a non-nil element",
		"methods of application interfaces (Database, Transport, …) return non-nil values when they return a nil error",
		"CFG paths over-approximate feasible paths")
	res.Undecided = []string{"panics from other causes (arithmetic, library internals, application code)", "termination of application callbacks", "nil results of Database.Get & co. used without a guard (application contract)"}
	res.Trusted = []string{"go/types, go/ssa (x/tools v0.29.0)", "the Go compiler's prove pass (bounds)", "e2_facts.go"}
}

func enclosingFuncName(p *Pub, pos token.Pos) string {
	best := ""
	var bestLen token.Pos = 1 << 40
	for _, u := range unitsOf(p.Fset, p.Pkg.Syntax, p.Info) {
		if u.Body.Pos() <= pos && pos <= u.Body.End() && u.Body.End()-u.Body.Pos() < bestLen {
			best, bestLen = u.Name, u.Body.End()-u.Body.Pos()
		}
	}
	return best
}

// checkBounds runs the compiler with the bounds-check-elimination debug flag
// and compares the unproven checks with the reviewed table.
func checkBounds(res *Result) {
	cache, err := os.MkdirTemp("", "verif-bce-")
	if err != nil {
		res.undecided("C11-R2", "go build", "-", "temporary build cache", err.Error())
		return
	}
	defer os.RemoveAll(cache)
	pkgs := []string{modPath + "/pub", modPath + "/streams/values/..."}
	args := []string{"build", "-gcflags=" + modPath + "/pub=-d=ssa/check_bce/debug=1", "-gcflags=" + modPath + "/streams/values/...=-d=ssa/check_bce/debug=1"}
	// newly extracted helpers are judged where they are called: the compiler is shown the sources
	// with those helpers expanded in place (E0), through -overlay
	usesOverlay := false
	if ov := compilerOverlay(); len(ov) > 0 {
		rep := map[string]string{}
		i := 0
		for name, content := range ov {
			i++
			tmp := filepath.Join(cache, fmt.Sprintf("overlay_%d.go", i))
			if err := os.WriteFile(tmp, content, 0644); err != nil {
				continue
			}
			rep[name] = tmp
		}
		if js, err := json.Marshal(map[string]interface{}{"Replace": rep}); err == nil {
			of := filepath.Join(cache, "overlay.json")
			if os.WriteFile(of, js, 0644) == nil {
				args = append(args, "-overlay="+of)
				usesOverlay = true
			}
		}
	}
	args = append(args, pkgs...)
	cmd := exec.Command("go", args...)
	cmd.Dir = repoDir
	// -trimpath: positions are printed relative to the module path (mapped back below), and the
	// compilations are keyed by content, not by directory — the shared build cache replays the
	// diagnostics of a cached compilation, and scratch copies of the tree do not each add their own
	// copy of every package to the cache
	cmd.Env = append(loadEnv(), "GOFLAGS=-mod=mod -trimpath")
	_ = usesOverlay
	out, err := cmd.CombinedOutput()
	if err != nil && !strings.Contains(string(out), "Found Is") {
		res.undecided("C11-R2", "go build", "-", "the compiler's bounds report could be produced", fmt.Sprintf("%v: %s", err, strings.Join(strings.SplitN(string(out), "\n", 4)[:min(3, len(strings.SplitN(string(out), "\n", 4)))], " | ")))
		return
	}
	type site struct {
		file string
		line int
		kind string
	}
	var sites []site
	for _, l := range strings.Split(string(out), "\n") {
		m := bceLine.FindStringSubmatch(strings.TrimSpace(l))
		if m == nil {
			continue
		}
		f := m[1]
		f = strings.TrimPrefix(f, modPath+"/")
		if !filepath.IsAbs(f) {
			f = filepath.Join(repoDir, f)
		}
		rel, _ := filepath.Rel(repoDir, f)
		ln, _ := strconv.Atoi(m[2])
		sites = append(sites, site{rel, ln, m[4]})
	}
	res.Count("unproven bounds checks reported by the compiler", len(sites), 5)
	// map each site to its function and indexed variable through the syntax tree
	p := loadPub()
	S := loadStreams()
	funcAt := func(file string, line int) (string, string) {
		var files []*ast.File
		fset := p.Fset
		if strings.HasPrefix(file, "pub/") {
			files = p.Pkg.Syntax
		} else {
			for _, vp := range S.Values {
				files = append(files, vp.Syntax...)
			}
			fset = S.Fset
		}
		for _, f := range files {
			if !strings.HasSuffix(fset.Position(f.Pos()).Filename, file) {
				continue
			}
			for _, dcl := range f.Decls {
				fd, ok := dcl.(*ast.FuncDecl)
				if !ok || fd.Body == nil {
					continue
				}
				if fset.Position(fd.Pos()).Line <= line && line <= fset.Position(fd.End()).Line {
					name := fd.Name.Name
					if fd.Recv != nil {
						name = strings.TrimPrefix(typesExpr(fd.Recv.List[0].Type), "*") + "." + name
					}
					// indexed variable on that line
					v := ""
					ast.Inspect(fd.Body, func(n ast.Node) bool {
						switch x := n.(type) {
						case *ast.IndexExpr:
							if fset.Position(x.Pos()).Line == line {
								v = typesExpr(x.X)
							}
						case *ast.SliceExpr:
							if fset.Position(x.Pos()).Line == line && v == "" {
								v = typesExpr(x.X)
							}
						}
						return true
					})
					return name, v
				}
			}
		}
		return "?", ""
	}
	// a full slice x[:] of a fixed-size array cannot be out of bounds, wherever it is written
	fullArraySliceAt := func(file string, line int) bool {
		var files []*ast.File
		var infos []*types.Info
		fset := p.Fset
		if strings.HasPrefix(file, "pub/") {
			for _, f := range p.Pkg.Syntax {
				files = append(files, f)
				infos = append(infos, p.Info)
			}
		} else {
			fset = S.Fset
			for _, vp := range S.Values {
				for _, f := range vp.Syntax {
					files = append(files, f)
					infos = append(infos, vp.TypesInfo)
				}
			}
		}
		found, all := false, true
		for i, f := range files {
			if !strings.HasSuffix(fset.Position(f.Pos()).Filename, file) {
				continue
			}
			ast.Inspect(f, func(n ast.Node) bool {
				switch x := n.(type) {
				case *ast.IndexExpr:
					if fset.Position(x.Pos()).Line == line {
						if _, isMap := infos[i].TypeOf(x.X).Underlying().(*types.Map); !isMap {
							all = false
						}
					}
				case *ast.SliceExpr:
					if fset.Position(x.Pos()).Line == line {
						found = true
						t := infos[i].TypeOf(x.X)
						if pt, ok := t.Underlying().(*types.Pointer); ok {
							t = pt.Elem()
						}
						if _, isArr := t.Underlying().(*types.Array); !isArr || x.Low != nil || x.High != nil || x.Max != nil {
							all = false
						}
					}
				}
				return true
			})
		}
		return found && all
	}
	// a position without any index or slice expression of its own, whose calls all go to other
	// modules: the check was inlined from library code (bytes.Buffer.String, say) and is the
	// library's, not pub's
	inlinedLibraryAt := func(file string, line int) bool {
		if !strings.HasPrefix(file, "pub/") {
			return false
		}
		own, calls, foreign := false, 0, true
		for _, f := range p.Pkg.Syntax {
			if !strings.HasSuffix(p.Fset.Position(f.Pos()).Filename, file) {
				continue
			}
			ast.Inspect(f, func(n ast.Node) bool {
				switch x := n.(type) {
				case *ast.IndexExpr:
					if p.Fset.Position(x.Pos()).Line == line {
						if _, isMap := p.Info.TypeOf(x.X).Underlying().(*types.Map); !isMap {
							own = true
						}
					}
				case *ast.SliceExpr:
					if p.Fset.Position(x.Pos()).Line == line {
						own = true
					}
				case *ast.CallExpr:
					if p.Fset.Position(x.Pos()).Line == line {
						if fn := calleeFunc(p.Info, x); fn != nil {
							calls++
							if fn.Pkg() == nil || strings.HasPrefix(fn.Pkg().Path(), modPath) {
								foreign = false
							}
						}
					}
				}
				return true
			})
		}
		return !own && calls > 0 && foreign
	}
	type agg struct {
		n   int
		pos string
	}
	byKey := map[string]*agg{}
	var order []string
	nAuto := 0
	for _, s := range sites {
		if fullArraySliceAt(s.file, s.line) || inlinedLibraryAt(s.file, s.line) {
			nAuto++
			continue
		}
		fn, v := funcAt(s.file, s.line)
		k := s.file + "|" + fn + "|" + v
		if byKey[k] == nil {
			byKey[k] = &agg{pos: fmt.Sprintf("%s:%d", s.file, s.line)}
			order = append(order, k)
		}
		byKey[k].n++
	}
	sort.Strings(order)
	for _, k := range order {
		parts := strings.SplitN(k, "|", 3)
		file, fn, v := parts[0], parts[1], parts[2]
		reason := ""
		for _, rb := range reviewedBounds {
			if rb.file != file {
				continue
			}
			want := rb.fn
			if i := strings.Index(want, ":"); i >= 0 {
				if want[:i] == fn && strings.HasPrefix(v, want[i+1:]) {
					reason = rb.reason
				}
			} else if want == fn {
				reason = rb.reason
			}
		}
		desc := fmt.Sprintf("%d index/slice expression(s) on %s in %s that the compiler cannot prove in bounds", byKey[k].n, v, fn)
		if reason != "" && fn == "DeserializeDuration" && strings.HasPrefix(v, "res") {
			// the reason is a claim about the regular expression: re-verify it
			if ok, why := witnessDurationRegexp(S); !ok {
				res.Add(Oblig{Rule: "C11-R2", Func: fn, Pos: byKey[k].pos, Key: "C11-R2|" + file + "|" + fn + "|" + v, Desc: desc + " — reviewed reason no longer holds", Verdict: VIOLATION, Detail: why})
				continue
			} else {
				reason += " [re-verified: " + why + "]"
			}
		}
		if reason != "" {
			res.Add(Oblig{Rule: "C11-R2", Func: fn, Pos: byKey[k].pos, Key: "C11-R2|" + file + "|" + fn + "|" + v, Desc: desc + " — reviewed: " + reason, Verdict: OK})
		} else {
			res.Add(Oblig{Rule: "C11-R2", Func: fn, Pos: byKey[k].pos, Key: "C11-R2|" + file + "|" + fn + "|" + v, Desc: desc, Verdict: VIOLATION, Detail: "not in the reviewed table: input of the wrong length (e.g. an empty string) panics with index out of range"})
		}
	}
}

func typesExpr(e ast.Expr) string {
	switch x := e.(type) {
	case *ast.Ident:
		return x.Name
	case *ast.StarExpr:
		return "*" + typesExpr(x.X)
	case *ast.SelectorExpr:
		return typesExpr(x.X) + "." + x.Sel.Name
	case *ast.ParenExpr:
		return typesExpr(x.X)
	case *ast.IndexExpr:
		return typesExpr(x.X) + "[…]"
	case *ast.CallExpr:
		return typesExpr(x.Fun) + "()"
	}
	return "?"
}

// singleIteration: a condition-less for statement whose body cannot complete
// normally (its last statement is a return or a break out of this loop) and
// which no continue statement targets. Its body runs at most once.
func singleIteration(file *ast.File, fs *ast.ForStmt) bool {
	label := ""
	ast.Inspect(file, func(n ast.Node) bool {
		if ls, ok := n.(*ast.LabeledStmt); ok && ls.Stmt == ast.Stmt(fs) {
			label = ls.Label.Name
		}
		return label == ""
	})
	if len(fs.Body.List) == 0 {
		return false
	}
	switch last := fs.Body.List[len(fs.Body.List)-1].(type) {
	case *ast.ReturnStmt:
	case *ast.BranchStmt:
		if last.Tok != token.BREAK || (last.Label != nil && last.Label.Name != label) {
			return false
		}
	default:
		return false
	}
	ok := true
	var walk func(n ast.Node, inner bool)
	walk = func(n ast.Node, inner bool) {
		ast.Inspect(n, func(m ast.Node) bool {
			switch x := m.(type) {
			case *ast.FuncLit:
				return false
			case *ast.ForStmt:
				if x != fs {
					walk(x.Body, true)
					return false
				}
			case *ast.RangeStmt:
				walk(x.Body, true)
				return false
			case *ast.BranchStmt:
				if x.Tok == token.CONTINUE {
					if x.Label == nil && !inner {
						ok = false
					}
					if x.Label != nil && x.Label.Name == label && label != "" {
						ok = false
					}
				}
				if x.Tok == token.GOTO {
					ok = false
				}
			}
			return true
		})
	}
	walk(fs.Body, false)
	return ok
}

// witnessDurationRegexp re-verifies why res[1..7] in DeserializeDuration is in
// bounds: the pattern handed to regexp.MustCompile matches every string that
// begins with 'P' (it is the literal P followed only by parts that may match
// the empty string, and contains no anchor or boundary assertion), it has at
// least as many groups as the largest constant index used on res, and a test
// that returns unless s[0] == 'P' precedes the match.
func witnessDurationRegexp(S *Streams) (bool, string) {
	for _, vp := range S.Values {
		for _, f := range vp.Syntax {
			for _, d := range f.Decls {
				fd, ok := d.(*ast.FuncDecl)
				if !ok || fd.Name.Name != "DeserializeDuration" || fd.Body == nil {
					continue
				}
				var pat string
				var patPos, guardPos token.Pos
				maxIdx := 0
				resName := ""
				ast.Inspect(fd.Body, func(n ast.Node) bool {
					switch x := n.(type) {
					case *ast.AssignStmt:
						// res := re.FindStringSubmatch(s)
						if len(x.Rhs) == 1 && len(x.Lhs) == 1 {
							if c, ok := x.Rhs[0].(*ast.CallExpr); ok {
								if sel, ok := c.Fun.(*ast.SelectorExpr); ok && sel.Sel.Name == "FindStringSubmatch" {
									resName = typesExpr(x.Lhs[0])
								}
							}
						}
					case *ast.CallExpr:
						if sel, ok := x.Fun.(*ast.SelectorExpr); ok && sel.Sel.Name == "MustCompile" && typesExpr(sel.X) == "regexp" && len(x.Args) == 1 {
							if bl, ok := x.Args[0].(*ast.BasicLit); ok && bl.Kind == token.STRING {
								pat, _ = strconv.Unquote(bl.Value)
								patPos = x.Pos()
							}
						}
					case *ast.IfStmt:
						// if len(s) == 0 || s[0] != 'P' { return … }
						txt := exprText(x.Cond)
						if strings.Contains(txt, "[0] != 'P'") && strings.Contains(txt, "len(") && len(x.Body.List) > 0 {
							if _, ok := x.Body.List[len(x.Body.List)-1].(*ast.ReturnStmt); ok && guardPos == token.NoPos {
								guardPos = x.Pos()
							}
						}
					}
					return true
				})
				ast.Inspect(fd.Body, func(n ast.Node) bool {
					if ix, ok := n.(*ast.IndexExpr); ok && resName != "" && typesExpr(ix.X) == resName {
						if bl, ok := ix.Index.(*ast.BasicLit); ok {
							if k, err := strconv.Atoi(bl.Value); err == nil && k > maxIdx {
								maxIdx = k
							}
						} else {
							maxIdx = 1 << 20 // a non-constant index: not covered by this argument
						}
					}
					return true
				})
				if pat == "" {
					return false, "no regexp.MustCompile(<string literal>) found in DeserializeDuration"
				}
				if guardPos == token.NoPos || guardPos > patPos {
					return false, "no test that returns unless the string is non-empty and starts with 'P' precedes the match"
				}
				re, err := rsyntax.Parse(pat, rsyntax.Perl)
				if err != nil {
					return false, "pattern does not parse: " + err.Error()
				}
				anchored := ""
				var walk func(r *rsyntax.Regexp)
				walk = func(r *rsyntax.Regexp) {
					switch r.Op {
					case rsyntax.OpBeginLine, rsyntax.OpEndLine, rsyntax.OpBeginText, rsyntax.OpEndText, rsyntax.OpWordBoundary, rsyntax.OpNoWordBoundary:
						anchored = r.Op.String()
					}
					for _, sub := range r.Sub {
						walk(sub)
					}
				}
				walk(re)
				if anchored != "" {
					return false, fmt.Sprintf("the pattern %q contains the assertion %s: a string that starts with 'P' but is not wholly of the expected shape no longer matches, FindStringSubmatch returns nil and res[1] panics", pat, anchored)
				}
				var nullable func(r *rsyntax.Regexp) bool
				nullable = func(r *rsyntax.Regexp) bool {
					switch r.Op {
					case rsyntax.OpEmptyMatch, rsyntax.OpStar, rsyntax.OpQuest:
						return true
					case rsyntax.OpRepeat:
						return r.Min == 0 || nullable(r.Sub[0])
					case rsyntax.OpCapture, rsyntax.OpPlus:
						return nullable(r.Sub[0])
					case rsyntax.OpConcat:
						for _, sub := range r.Sub {
							if !nullable(sub) {
								return false
							}
						}
						return true
					case rsyntax.OpAlternate:
						for _, sub := range r.Sub {
							if nullable(sub) {
								return true
							}
						}
					}
					return false
				}
				okShape := false
				if re.Op == rsyntax.OpConcat && len(re.Sub) >= 1 && re.Sub[0].Op == rsyntax.OpLiteral && string(re.Sub[0].Rune) == "P" && re.Sub[0].Flags&rsyntax.FoldCase == 0 {
					okShape = true
					for _, sub := range re.Sub[1:] {
						if !nullable(sub) {
							okShape = false
						}
					}
				} else if re.Op == rsyntax.OpLiteral && string(re.Rune) == "P" {
					okShape = true
				}
				if !okShape {
					return false, fmt.Sprintf("the pattern %q is not the literal P followed only by parts that may be empty: some strings starting with 'P' do not match", pat)
				}
				if re.MaxCap() < maxIdx {
					return false, fmt.Sprintf("the pattern has %d groups but res[%d] is used", re.MaxCap(), maxIdx)
				}
				return true, fmt.Sprintf("pattern %q: literal P + nullable parts, no assertions, %d groups ≥ largest index %d, 'P' test precedes", pat, re.MaxCap(), maxIdx)
			}
		}
	}
	return false, "DeserializeDuration not found"
}
