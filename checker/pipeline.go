package main

// Declarative "pipeline" rules over SSA: named steps (calls) of a function
// that must exist, be ordered by dominance, and lie in given fact regions.

import (
	"fmt"
	"strings"

	"golang.org/x/tools/go/ssa"
)

// findCalls returns the calls of fn whose label (E1) or call name matches.
// A pattern matches when it equals the CallInfo label, the callName, or — with
// a trailing '*' — is a prefix of either.
func findCalls(E *Effects, fn *ssa.Function, pattern string) []ssa.CallInstruction {
	var out []ssa.CallInstruction
	match := func(s string) bool {
		if strings.HasSuffix(pattern, "*") {
			return strings.HasPrefix(s, strings.TrimSuffix(pattern, "*"))
		}
		return s == pattern || (closureAlias[pattern] != "" && s == closureAlias[pattern])
	}
	for _, ci := range E.byFn[fn] {
		if match(ci.Label) || match(callName(ci.Instr)) {
			out = append(out, ci.Instr)
		}
	}
	return out
}

type pstep struct {
	pattern  string
	min, max int // number of call sites (max<0: unbounded)
	what     string
}

// checkOrder: every instance of step i dominates every instance of step i+1.
func checkOrder(res *Result, p *Pub, E *Effects, rule, fnName string, steps []pstep) map[string][]ssa.CallInstruction {
	fn := p.MustFunc(res, rule, fnName)
	found := map[string][]ssa.CallInstruction{}
	if fn == nil {
		return found
	}
	ok := true
	for _, st := range steps {
		cs := findCalls(E, fn, st.pattern)
		found[st.pattern] = cs
		good := len(cs) >= st.min && (st.max < 0 || len(cs) <= st.max)
		res.check(good, rule, fnName, p.pos(fn), fmt.Sprintf("%s: call of %s present (%d..%s site(s))", st.what, st.pattern, st.min, maxStr(st.max)), fmt.Sprintf("found %d call sites", len(cs)))
		if !good {
			ok = false
		}
	}
	if !ok {
		return found
	}
	for i := 0; i+1 < len(steps); i++ {
		a, b := steps[i], steps[i+1]
		for _, ca := range found[a.pattern] {
			for _, cb := range found[b.pattern] {
				res.check(dominates(ca, cb), rule, fnName, p.pos(cb), fmt.Sprintf("%s happens before %s on every path", a.what, b.what),
					fmt.Sprintf("%s at %s does not dominate %s at %s: a path reaches the later step without the earlier one", a.pattern, p.pos(ca), b.pattern, p.pos(cb)))
			}
		}
	}
	return found
}

func maxStr(n int) string {
	if n < 0 {
		return "n"
	}
	return fmt.Sprint(n)
}

// inTotalLoop reports whether the call sits in a loop over `over`'s elements
// whose only exits are the loop condition and failure returns. Approximation
// used by the "for every element" clauses: the instruction's block is inside
// a natural loop (reaches itself), and no edge leaves the loop body to a
// success return other than through the loop header.
func inLoop(ins ssa.Instruction) bool {
	return reachableFrom(ins.Block(), ins.Block())
}

// loopBlocks returns the blocks of the innermost cycle containing b: blocks
// that both are reachable from b and reach b.
func loopBlocks(b *ssa.BasicBlock) map[*ssa.BasicBlock]bool {
	out := map[*ssa.BasicBlock]bool{}
	for _, x := range b.Parent().Blocks {
		if (x == b || reachableFrom(b, x)) && (x == b || reachableFrom(x, b)) && reachableFrom(b, b) {
			out[x] = true
		}
	}
	return out
}

// loopHeader: the block of the cycle that has a predecessor outside it.
func loopHeader(loop map[*ssa.BasicBlock]bool) *ssa.BasicBlock {
	var best *ssa.BasicBlock
	for b := range loop {
		for _, pr := range b.Preds {
			if !loop[pr] && (best == nil || b.Index < best.Index) {
				best = b
			}
		}
	}
	return best
}

// totalLoop: every edge leaving the loop either starts at the header (the
// loop condition) or leads (without re-entering) only to returns for which
// isFailure holds. Used for "every element is checked" clauses: a `break`, an
// early `return nil` or `continue`-past-the-check is reported.
func totalLoop(loop map[*ssa.BasicBlock]bool, isFailureReturn func(r *ssa.Return) bool) (bool, string) {
	hdr := loopHeader(loop)
	if hdr == nil {
		return false, "no loop header found"
	}
	for b := range loop {
		for _, s := range b.Succs {
			if loop[s] || b == hdr {
				continue
			}
			// exit edge from the body: must lead only to failure returns
			seen := map[*ssa.BasicBlock]bool{}
			var bad string
			var walk func(x *ssa.BasicBlock)
			walk = func(x *ssa.BasicBlock) {
				if seen[x] || bad != "" {
					return
				}
				seen[x] = true
				if loop[x] {
					return
				}
				for _, ins := range x.Instrs {
					if r, ok := ins.(*ssa.Return); ok && !isFailureReturn(r) {
						bad = fmt.Sprintf("block %d leaves the loop body towards a non-failure return in block %d", b.Index, x.Index)
					}
				}
				if len(x.Succs) > 0 && bad == "" {
					// leaving the body and continuing after the loop without passing the header = break
					bad = fmt.Sprintf("block %d leaves the loop other than through its condition (break)", b.Index)
				}
			}
			walk(s)
			if bad != "" {
				return false, bad
			}
		}
	}
	return true, ""
}

// totalLoopFF: like totalLoop with "failure returns are acceptable exits", but
// path-sensitive: an edge that leaves the loop body is acceptable when every
// return reachable from it — following only branches that are feasible given
// what is known on that edge — reports a failure, and the loop is not
// re-entered. (A `break` out of an expanded helper that carries a non-nil error
// to the caller's `if err != nil { return err }` is such an edge.)
func totalLoopFF(ff *FuncFacts, loop map[*ssa.BasicBlock]bool) (bool, string) {
	hdr := loopHeader(loop)
	if hdr == nil {
		return false, "no loop header found"
	}
	for b := range loop {
		for _, s := range b.Succs {
			if loop[s] || b == hdr {
				continue
			}
			rets, stopped := ff.returnsFromEdge(b, s, loop)
			if len(stopped) > 0 {
				continue // back into the loop: not an exit
			}
			for r, st := range rets {
				failure := false
				for _, v := range r.Results {
					if isErrorType(v) {
						mn, nn := ff.errStatusIn(st, v)
						failure = nn && !mn
					}
				}
				if !failure {
					return false, fmt.Sprintf("block %d leaves the loop body and can reach the non-failure return in block %d", b.Index, r.Block().Index)
				}
			}
		}
	}
	return true, ""
}

// handOverSites: the places where fn hands a payload to the transport — calls of
// sideEffectActor.deliverToRecipients, or Transport.BatchDeliver calls written in fn itself
// (the helper inlined).
func handOverSites(E *Effects, fn *ssa.Function) []ssa.CallInstruction {
	out := findCalls(E, fn, "sideEffectActor.deliverToRecipients")
	out = append(out, findCalls(E, fn, "Transport.BatchDeliver")...)
	return out
}

// optionalFuncs: of the named functions, those that exist on this tree. A helper the rules
// know by name that was inlined into its callers is analysed there.
func optionalFuncs(p *Pub, names []string) []string {
	var out []string
	for _, n := range names {
		if p.HasFunc(n) {
			out = append(out, n)
		}
	}
	return out
}
