package main

// C05 — outbox posts are identified, normalised, stored, then delivered.

import (
	"fmt"
	"go/types"
	"strings"

	"golang.org/x/tools/go/ssa"
)

// collectionMutators lists, per function, the only mutator that may be applied
// to an items / orderedItems property there (C04-R5, C05-R2, C16-R4).
var collectionMutators = []struct {
	fn, method string
	min        int
	why        string
}{
	{"sideEffectActor.addToOutbox", "PrependIRI", 1, "newest first: the activity id goes to the front of the outbox"},
	{"sideEffectActor.addToInboxIfNew", "PrependIRI", 1, "the activity id goes to the front of the inbox"},
	{"FederatingWrappedCallbacks.follow", "PrependIRI", 1, "new followers go to the front of followers"},
	{"FederatingWrappedCallbacks.accept", "PrependIRI", 1, "accepting actors go to the front of following"},
	{"FederatingWrappedCallbacks.like$1", "PrependIRI", 2, "the Like id goes to the front of likes (Collection and OrderedCollection forms)"},
	{"FederatingWrappedCallbacks.announce$1", "PrependIRI", 2, "the Announce id goes to the front of shares (both forms)"},
	{"SocialWrappedCallbacks.like", "PrependIRI", 1, "liked object ids go to the front of liked"},
	{"add$1", "AppendIRI", 2, "Add appends the object ids to the target (both forms)"},
	{"remove$1", "Remove", 2, "Remove removes matching ids from the target (both forms)"},
}

func isItemsProp(t types.Type) bool {
	n := namedOf(t)
	if n == nil || n.Obj().Pkg() == nil || !strings.HasSuffix(n.Obj().Pkg().Path(), "/streams/vocab") {
		return false
	}
	return n.Obj().Name() == "ActivityStreamsItemsProperty" || n.Obj().Name() == "ActivityStreamsOrderedItemsProperty"
}

func isMutatorName(m string) bool {
	return hasPrefixAny(m, "Append", "Prepend", "Insert", "Set") || m == "Remove" || m == "Swap"
}

func checkCollectionMutators(res *Result, p *Pub, rule string, only map[string]bool) {
	for _, cm := range collectionMutators {
		if only != nil && !only[cm.fn] {
			continue
		}
		fn := p.MustFunc(res, rule, cm.fn)
		if fn == nil {
			continue
		}
		n := 0
		for _, ci := range callsIn(fn) {
			cc := ci.Common()
			if !cc.IsInvoke() || !isItemsProp(cc.Value.Type()) || !isMutatorName(cc.Method.Name()) {
				continue
			}
			if cc.Method.Name() == cm.method {
				n++
				res.ok(rule, cm.fn, p.pos(ci), cm.method+" on the collection's items ("+cm.why+")")
			} else {
				res.bad(rule, cm.fn, p.pos(ci), "only "+cm.method+" is applied to the collection's items ("+cm.why+")", "found "+cc.Method.Name())
			}
		}
		res.check(n >= cm.min, rule, cm.fn, p.pos(fn), fmt.Sprintf("at least %d %s site(s) on items/orderedItems", cm.min, cm.method), fmt.Sprintf("found %d", n))
	}
}

// checkPrependShape: in fn, the collection page obtained from `getter`
// (Database.GetOutbox / GetInbox) gets the id of the activity parameter put at
// the front of its orderedItems, a fresh property being installed when it had
// none, and is then saved with `setter` — in that order, once.
func checkPrependShape(res *Result, p *Pub, E *Effects, rule, fnName, getter, setter string, prefix []pstep) {
	steps := append(append([]pstep{}, prefix...),
		pstep{getter, 1, 1, "read the collection"},
		pstep{"ActivityStreamsOrderedItemsProperty.PrependIRI", 1, 1, "prepend the id"},
		pstep{"ActivityStreamsOrderedCollectionPage.SetActivityStreamsOrderedItems", 1, 1, "install the items property"},
		pstep{setter, 1, 1, "save the collection"})
	found := checkOrder(res, p, E, rule, fnName, steps)
	fn := p.Func(fnName)
	if fn == nil || len(found["ActivityStreamsOrderedItemsProperty.PrependIRI"]) != 1 || len(found[getter]) != 1 || len(found[setter]) != 1 {
		return
	}
	pre := found["ActivityStreamsOrderedItemsProperty.PrependIRI"][0]
	get := found[getter][0].(*ssa.Call)
	page := ssa.Value(extractOf(get, 0))
	// receiver of PrependIRI: the page's orderedItems, or a fresh property when nil
	recv := pre.Common().Value
	okRecv := false
	isItemsOfPage := func(v ssa.Value) bool {
		c, ok := v.(*ssa.Call)
		return ok && c.Common().IsInvoke() && c.Common().Method.Name() == "GetActivityStreamsOrderedItems" && c.Common().Value == page
	}
	if phi, ok := recv.(*ssa.Phi); ok {
		hasGet, hasNew := false, false
		for _, e := range phi.Edges {
			if isItemsOfPage(e) {
				hasGet = true
			} else if c, ok := e.(*ssa.Call); ok && staticName(c) == "streams.NewActivityStreamsOrderedItemsProperty" {
				hasNew = true
			}
		}
		okRecv = hasGet && hasNew && len(phi.Edges) == 2
	} else {
		okRecv = isItemsOfPage(recv)
	}
	res.check(okRecv, rule, fnName, p.pos(pre), "the id is prepended to the page's own orderedItems (a fresh property only when it had none)", "receiver of PrependIRI is "+valueLabel(recv))
	// argument: activity.GetJSONLDId().Get()
	okArg := false
	if g, ok := pre.Common().Args[0].(*ssa.Call); ok && g.Common().IsInvoke() && g.Common().Method.Name() == "Get" {
		if id, ok := g.Common().Value.(*ssa.Call); ok && id.Common().IsInvoke() && id.Common().Method.Name() == "GetJSONLDId" {
			if prm, ok := id.Common().Value.(*ssa.Parameter); ok && prm.Name() == "activity" {
				okArg = true
			}
		}
	}
	res.check(okArg, rule, fnName, p.pos(pre), "the prepended value is the id of the activity parameter", "argument is "+valueLabel(pre.Common().Args[0]))
	// Set...OrderedItems(page, recv) and setter(page)
	set := found["ActivityStreamsOrderedCollectionPage.SetActivityStreamsOrderedItems"][0]
	res.check(set.Common().Value == page && set.Common().Args[0] == recv, rule, fnName, p.pos(set), "the (possibly fresh) items property is installed on the page that is saved", "receiver/argument mismatch")
	sv := found[setter][0]
	res.check(len(sv.Common().Args) >= 2 && sv.Common().Args[1] == page, rule, fnName, p.pos(sv), "the page that was read is the page that is saved", "argument is "+valueLabel(sv.Common().Args[1]))
	res.check(!inLoop(pre), rule, fnName, p.pos(pre), "the id is prepended exactly once (not in a loop)", "PrependIRI sits in a loop")
}

func checkC05(res *Result) {
	p := loadPub()
	E := computeEffects(p)
	res.Packages = []string{p.Pkg.PkgPath}
	res.Explanation = "Decides the ordering and pairing clauses on all SSA paths: in baseActor.deliver the steps wrap (only for non-activities) → new ids → store/side effects → deliver are ordered by dominance, each later step lies in the success region of every earlier one (E9 error discipline over everything reachable from deliver), and Deliver additionally requires the federated flag and deliverable==true; in PostOutbox/addToOutbox the activity is created, then the outbox page is read, the activity's own id is prepended exactly once to that page's orderedItems (fresh property installed when nil) and the same page is saved; AddNewIDs gives the activity and — for a Create — every embedded object a NewID; social Create normalises recipients before the first store; the 201/Location clause is C10-R3b. Does not decide set-union semantics of the normalisation or 'newest first' over histories."
	res.Rule("C05-R1", "deliver: WrapInCreate only for a non-activity; then AddNewIDs, then PostOutbox, then — only with the federated protocol enabled and deliverable==true — Deliver; each step dominated by the previous")
	res.Rule("C05-R1e", "error discipline over every function reachable from deliver: no effect (store, delivery, callback) after a failed or untested step; no failure swallowed")
	res.Rule("C05-R2", "addToOutbox: Create(activity) ≺ GetOutbox ≺ PrependIRI(activity id) ≺ SetOutbox(same page), exactly once, under the outbox lock; PostOutbox calls it once")
	res.Rule("C05-R4", "AddNewIDs: NewID+SetJSONLDId for the activity, and inside a total loop for every object of a Create")
	res.Rule("C05-R5", "only the documented mutator is applied to each collection (front insertion)")
	res.Rule("C05-R6", "social create: attribution and recipient normalisation precede the first Database.Create")
	res.Rule("C05-R7", "entry wiring: PostOutboxScheme and Send reach the pipeline only through deliver")

	// R1
	found := checkOrder(res, p, E, "C05-R1", "baseActor.deliver", []pstep{
		{"delegate.AddNewIDs", 1, 1, "new ids"},
		{"delegate.PostOutbox", 1, 1, "store and side effects"},
		{"delegate.Deliver", 1, 1, "federated delivery"},
	})
	if fn := p.Func("baseActor.deliver"); fn != nil {
		ff := computeFacts(fn)
		wraps := findCalls(E, fn, "delegate.WrapInCreate")
		res.check(len(wraps) == 1, "C05-R1", "baseActor.deliver", p.pos(fn), "WrapInCreate called at one site", fmt.Sprintf("%d sites", len(wraps)))
		for _, w := range wraps {
			s := ff.at[w]
			ok := false
			if s != nil {
				for f := range s.facts {
					if f.k == fFALSE && strings.HasPrefix(f.v, "pure:IsOrExtendsActivityStreamsActivity(") {
						ok = true
					}
				}
			}
			res.check(ok, "C05-R1", "baseActor.deliver", p.pos(w), "WrapInCreate only where the value is not an Activity", "facts: "+ff.describe(w))
			for _, a := range found["delegate.AddNewIDs"] {
				// not dominance (the wrap is conditional) but order: AddNewIDs must not precede the wrap
				res.check(!reachesInstr(a, w), "C05-R1", "baseActor.deliver", p.pos(a), "AddNewIDs comes after the optional wrap", "AddNewIDs can execute before WrapInCreate")
			}
		}
		for _, d := range found["delegate.Deliver"] {
			po := found["delegate.PostOutbox"]
			okF := ff.hasName(d, "param:b->enableFederatedProtocol", fTRUE, "")
			okD := false
			if len(po) == 1 {
				if c, ok := po[0].(*ssa.Call); ok {
					if dv := extractOf(c, 0); dv != nil {
						okD = ff.has(d, dv, fTRUE, "")
					}
				}
			}
			res.check(okF && okD, "C05-R1", "baseActor.deliver", p.pos(d), "Deliver only with enableFederatedProtocol==true ∧ deliverable==true", "facts: "+ff.describe(d))
		}
	}
	addErrFlowObligations(res, p, E, "C05-R1e", reachFrom(p, E, "baseActor.deliver"), true)

	// R2
	checkPrependShape(res, p, E, "C05-R2", "sideEffectActor.addToOutbox", "Database.GetOutbox", "Database.SetOutbox", []pstep{{"Database.Create", 1, 1, "store the activity"}})
	if fn := p.Func("sideEffectActor.addToOutbox"); fn != nil {
		for _, c := range findCalls(E, fn, "Database.Create") {
			prm, ok := unwrap(c.Common().Args[1]).(*ssa.Parameter)
			res.check(ok && prm.Name() == "activity", "C05-R2", "sideEffectActor.addToOutbox", p.pos(c), "the stored value is the activity parameter", "argument is "+valueLabel(c.Common().Args[1]))
		}
	}
	checkOrder(res, p, E, "C05-R2", "sideEffectActor.PostOutbox", []pstep{{"sideEffectActor.addToOutbox", 1, 1, "store and list the activity"}})

	// R4
	if fn := p.MustFunc(res, "C05-R4", "sideEffectActor.AddNewIDs"); fn != nil {
		ff := computeFacts(fn)
		newids := findCalls(E, fn, "Database.NewID")
		sets := findCalls(E, fn, "*")
		_ = sets
		var setOnActivity, setInLoop, newInLoop, newTop int
		for _, c := range callsIn(fn) {
			cc := c.Common()
			if cc.IsInvoke() && cc.Method.Name() == "SetJSONLDId" {
				if prm, ok := cc.Value.(*ssa.Parameter); ok && prm.Name() == "activity" {
					setOnActivity++
				} else if inLoop(c) {
					setInLoop++
					// each object needs an id property of its own: the value installed must be
					// constructed inside the same iteration
					fresh := false
					if nc, ok := unwrap(cc.Args[0]).(*ssa.Call); ok && staticName(nc) == "streams.NewJSONLDIdProperty" {
						fresh = loopBlocks(c.Block())[nc.Block()]
					}
					res.check(fresh, "C05-R4", fname(fn), p.pos(c), "each object gets an id property of its own (constructed inside the loop)", "the id property installed on the objects is created outside the loop: all objects share one id")
					s := ff.at[c]
					okCreate := false
					if s != nil {
						for f := range s.facts {
							if f.k == fTRUE && strings.HasPrefix(f.v, "pure:IsOrExtendsActivityStreamsCreate(") {
								okCreate = true
							}
						}
					}
					res.check(okCreate, "C05-R4", fname(fn), p.pos(c), "object ids are renewed only for a Create", "facts: "+ff.describe(c))
					tot, why := totalLoopFF(ff, loopBlocks(c.Block()))
					res.check(tot, "C05-R4", fname(fn), p.pos(c), "every object of the Create gets a new id (total loop)", why)
				}
			}
		}
		for _, c := range newids {
			if inLoop(c) {
				newInLoop++
			} else {
				newTop++
			}
		}
		res.check(setOnActivity == 1 && newTop == 1, "C05-R4", fname(fn), p.pos(fn), "the activity gets one NewID and one SetJSONLDId", fmt.Sprintf("NewID outside loop: %d, SetJSONLDId on activity: %d", newTop, setOnActivity))
		res.check(setInLoop == 1 && newInLoop == 1, "C05-R4", fname(fn), p.pos(fn), "each object gets a NewID and a SetJSONLDId inside the loop", fmt.Sprintf("NewID in loop: %d, SetJSONLDId in loop: %d", newInLoop, setInLoop))
	}

	// R5
	checkCollectionMutators(res, p, "C05-R5", map[string]bool{"sideEffectActor.addToOutbox": true})

	// R6
	if fn := p.MustFunc(res, "C05-R6", "SocialWrappedCallbacks.create"); fn != nil {
		ff := computeFacts(fn)
		norm := findCalls(E, fn, "normalizeRecipients")
		res.check(len(norm) == 1, "C05-R6", fname(fn), p.pos(fn), "normalizeRecipients called once", fmt.Sprintf("%d sites", len(norm)))
		for _, ci := range E.byFn[fn] {
			if ci.Trans&eDBW == 0 || len(norm) != 1 {
				continue
			}
			n := norm[0].(*ssa.Call)
			res.check(dominates(n, ci.Instr) && ff.has(ci.Instr, n, fNIL, ""), "C05-R6", fname(fn), p.pos(ci.Instr), ci.Label+" (stores objects) only after normalizeRecipients succeeded", "facts: "+ff.describe(ci.Instr))
		}
	}

	// R6k / R5w: what is copied where
	res.Rule("C05-R6k", "normalizeRecipients: for each of to/bto/cc/bcc/audience, entries are copied activity→object and object→activity, each append receiving only values of its own kind and guarded by the receiver's own set; fresh properties are installed")
	checkKindConsistency(res, p, "C05-R6k", "normalizeRecipients", 2, true)
	checkFreshInstalled(res, p, "C05-R6k", []string{"normalizeRecipients", "SocialWrappedCallbacks.create", "sideEffectActor.addToOutbox"}, 12)
	res.Rule("C05-R5w", "wrapInCreate: the Create's object is the wrapped value, its actor the outbox owner, and to/bto/cc/bcc/audience/published are copied from the object, kind by kind")
	checkKindConsistency(res, p, "C05-R5w", "wrapInCreate", 1, false)
	checkWrapInCreate(res, p, E)

	// R7
	if fn := p.MustFunc(res, "C05-R7", "baseActor.PostOutboxScheme"); fn != nil {
		d := findCalls(E, fn, "baseActor.deliver")
		res.check(len(d) == 1, "C05-R7", fname(fn), p.pos(fn), "PostOutboxScheme runs the pipeline through one call of deliver", fmt.Sprintf("%d calls", len(d)))
		for _, ci := range E.byFn[fn] {
			if ci.Trans&(eDBW|eTP) != 0 && ci.Label != "baseActor.deliver" {
				res.bad("C05-R7", fname(fn), p.pos(ci.Instr), "no store or delivery outside deliver", ci.Label+" ["+ci.Trans.String()+"]")
			}
		}
	}
	checkPureForward(res, p, E, "C05-R7", "baseActorFederating.Send", "baseActor.deliver")

	res.Functions = len(reachFrom(p, E, "baseActor.deliver"))
	res.Count("functions reachable from deliver", res.Functions, 25)
	res.Rule("C05-R6a", "social create, attribution per object: the membership test guarding an append to the attributedTo of the object at index i consults a set selected by that same i")
	checkAttributionPerObject(res, p, "C05-R6a")
	res.Rule("C05-R8", "wrap decision: a posted value is wrapped in a Create exactly when it is not an activity — IsOrExtendsActivity, which deliver consults, holds for Activity and all its descendants in the ontology and for nothing else (shared with C13-R3)")
	checkActivityPredicate(res, "C05-R8")
	res.Rule("C05-R7", "the outbox pipeline is a function of the request: no method of the actor types writes a field of its receiver (nothing looked up for one outbox — its owner, its id — can be remembered and used for another)")
	checkStatelessHandlers(res, p, "C05-R7")
	res.Assumptions = append(res.Assumptions, "a custom DelegateActor is outside the library: the pipeline is checked for *sideEffectActor", "CFG paths over-approximate feasible paths")
	res.Undecided = []string{"union semantics of normalizeRecipients on overlapping sets (value level)", "'newest first' over a history of posts (the per-post step is decided)", "that fresh ids are distinct (Database.NewID is the application's)"}
	res.Trusted = []string{"go/types, go/ssa (x/tools v0.29.0)", "e1_effects.go, e2_facts.go, e9_errflow.go"}
}

func checkWrapInCreate(res *Result, p *Pub, E *Effects) {
	fn := p.MustFunc(res, "C05-R5w", "wrapInCreate")
	if fn == nil {
		return
	}
	g := flowOf(fn)
	want := map[string]func(ssa.Value) bool{
		"SetActivityStreamsObject": func(v ssa.Value) bool {
			return anyBackward(g, v, func(x ssa.Value) bool { return isParamNamed(x, "o") })
		},
		"SetActivityStreamsActor": func(v ssa.Value) bool {
			return anyBackward(g, v, func(x ssa.Value) bool { return isParamNamed(x, "actor") })
		},
		"SetActivityStreamsPublished": func(v ssa.Value) bool {
			return anyBackward(g, v, func(x ssa.Value) bool { return isCallNamed(x, "GetActivityStreamsPublished") })
		},
	}
	seen := map[string]bool{}
	for _, ci := range callsIn(fn) {
		cc := ci.Common()
		if !cc.IsInvoke() {
			continue
		}
		if f, ok := want[cc.Method.Name()]; ok {
			seen[cc.Method.Name()] = true
			res.check(f(cc.Args[0]), "C05-R5w", "wrapInCreate", p.pos(ci), cc.Method.Name()+" receives the corresponding datum of the wrapped object / outbox owner", "no flow from the expected source into the argument")
		}
	}
	for m := range want {
		res.check(seen[m], "C05-R5w", "wrapInCreate", p.pos(fn), m+" is called on the Create", "missing")
	}
	// WrapInCreate (sideEffectActor) passes ActorForOutbox(outboxIRI) as the actor
	if w := p.Func("sideEffectActor.WrapInCreate"); w != nil {
		gw := flowOf(w)
		for _, c := range findCalls(E, w, "wrapInCreate") {
			res.check(anyBackward(gw, c.Common().Args[2], func(x ssa.Value) bool { return isCallNamed(x, "Database.ActorForOutbox") }), "C05-R5w", fname(w), p.pos(c), "the Create's actor is the owner of the outbox (ActorForOutbox)", "actor argument does not derive from Database.ActorForOutbox")
			res.check(isParamNamed(unwrap(c.Common().Args[1]), "obj"), "C05-R5w", fname(w), p.pos(c), "the wrapped value is the posted object", "argument mismatch")
		}
	}
}
