package main

// C07 — nothing happens before authentication, authorization and protocol checks.

import (
	"fmt"
	"strings"

	"golang.org/x/tools/go/ssa"
)

type entryPoint struct {
	name       string // fname
	classifier string // isActivityPubPost / isActivityPubGet
	flag       string // protocol flag field ("" = none)
	authGate   string // delegate method ("" = no authentication by contract)
	authzGate  string
	forwarder  string // exported wrapper that must be a pure forward to this function
}

var entryPoints = []entryPoint{
	{"baseActor.PostInboxScheme", "isActivityPubPost", "enableFederatedProtocol", "AuthenticatePostInbox", "AuthorizePostInbox", "baseActor.PostInbox"},
	{"baseActor.PostOutboxScheme", "isActivityPubPost", "enableSocialProtocol", "AuthenticatePostOutbox", "", "baseActor.PostOutbox"},
	{"baseActor.GetInbox", "isActivityPubGet", "", "AuthenticateGetInbox", "", ""},
	{"baseActor.GetOutbox", "isActivityPubGet", "", "AuthenticateGetOutbox", "", ""},
	{"NewActivityStreamsHandlerScheme$1", "isActivityPubGet", "", "", "", "NewActivityStreamsHandler"},
}

// gateInfo locates a delegate gate call and its result extracts.
type gateInfo struct {
	call    *ssa.Call
	okV     ssa.Value
	errV    ssa.Value
	present bool
}

func findDelegateGate(E *Effects, fn *ssa.Function, method string, okIdx, errIdx int) (g gateInfo, n int) {
	for _, ci := range E.byFn[fn] {
		if ci.Label == "delegate."+method {
			n++
			if c, ok := ci.Instr.(*ssa.Call); ok {
				g.call = c
				g.present = true
				if e := extractOf(c, okIdx); e != nil {
					g.okV = e
				}
				if e := extractOf(c, errIdx); e != nil {
					g.errV = e
				}
			}
		}
	}
	return
}

func findClassifier(fn *ssa.Function, name string) (*ssa.Call, int) {
	var found *ssa.Call
	n := 0
	for _, ci := range callsIn(fn) {
		if f := ci.Common().StaticCallee(); f != nil && f.Name() == name && f.Pkg != nil && f.Pkg.Pkg.Path() == modPath+"/pub" {
			if c, ok := ci.(*ssa.Call); ok {
				found = c
				n++
			}
		}
	}
	return found, n
}

// flagLoad finds the load of b.<flag> in fn.
func flagLoad(fn *ssa.Function, flag string) ssa.Value {
	for _, b := range fn.Blocks {
		for _, ins := range b.Instrs {
			if v, ok := ins.(ssa.Value); ok {
				if _, ok := loadOfField(v, flag); ok {
					return v
				}
			}
		}
	}
	return nil
}

func checkC07(res *Result) {
	p := loadPub()
	E := computeEffects(p)
	res.Packages = []string{p.Pkg.PkgPath}
	res.Explanation = "The ordering clause is decided completely for the library's own code: for each of the five request entry points, a forward must-facts dataflow over the SSA control-flow graph gives, at every call site, the conditions known to hold on every path reaching it; every call whose transitive effect (own call resolution over the whole of package pub) includes a Database, Transport, HttpClient or application-callback effect must carry the facts classifier==true, protocol flag==true, authentication err==nil ∧ authenticated==true and (inbox POST) authorization err==nil ∧ authorized==true. Effects are resolved transitively through every pub function, the delegate interface (to *sideEffectActor), func-typed side-channel fields and resolver dispatch; an unresolved dynamic call or a value handed out of pub through which code could call back is a failure."
	res.Rule("C07-R0", "effect resolution is complete: no unresolved dynamic call in pub, and no func value or application interface is passed to code outside pub (other than resolver constructors, whose dispatch is modelled)")
	res.Rule("C07-R1", "every call in an entry point other than the classifier itself happens only where isActivityPubPost/Get(r) is known true")
	res.Rule("C07-R2", "every call that reaches the delegate happens only where the entry point's protocol flag is known true (inbox POST: federated protocol, outbox POST: social protocol)")
	res.Rule("C07-R3", "every call with a Database / Transport / application-callback effect happens only where the entry point's Authenticate* call returned err==nil and authenticated==true")
	res.Rule("C07-R4", "inbox POST: every such call additionally happens only where AuthorizePostInbox returned err==nil and authorized==true; sideEffectActor.AuthorizePostInbox returns authorized==true only where Blocked returned err==nil and blocked==false")
	res.Rule("C07-R5", "gate purity: the sideEffectActor implementations of the gates, hooks and GET accessors make exactly one application call (the like-named method) and have no other effect; AuthorizePostInbox's effects are within {Blocked, WriteHeader}")
	res.Rule("C07-R6", "the classifiers are the conjunction of the HTTP method test and the media-type test of the right header; the exported wrappers are pure forwards")

	// R0
	for _, u := range E.unknown {
		res.undecided("C07-R0", "pub", strings.SplitN(u, ": ", 2)[0], "unresolved call: "+u, "the effect of this call cannot be bounded")
	}
	for _, u := range E.premise {
		res.bad("C07-R0", "pub", strings.SplitN(u, ": ", 2)[0], "value escaping pub: "+u, "code outside pub could reach application code through this value; the effect summaries would be incomplete")
	}
	nCalls := 0
	for _, cis := range E.byFn {
		nCalls += len(cis)
	}
	res.ok("C07-R0", "pub", "-", fmt.Sprintf("%d call sites in %d functions classified (%d unresolved, %d escapes)", nCalls, len(p.Funcs), len(E.unknown), len(E.premise)))
	res.Count("pub call sites classified", nCalls, 900)
	res.Functions = len(p.Funcs)

	nGated := 0
	for _, ep := range entryPoints {
		fn := p.MustFunc(res, "C07-R1", ep.name)
		if fn == nil {
			continue
		}
		ff := computeFacts(fn)
		cls, n := findClassifier(fn, ep.classifier)
		// the classifier written out in the entry point: (r.Method == M) && headerIsActivityPubMediaType(r.Header.Get(H))
		var inlineMedia *ssa.Call
		inlineMethod := ""
		if cls == nil && !p.HasFunc(ep.classifier) {
			method, header := "POST", "Content-Type"
			if ep.classifier == "isActivityPubGet" {
				method, header = "GET", "Accept"
			}
			for _, ci := range callsIn(fn) {
				if f := ci.Common().StaticCallee(); f != nil && f.Name() == "headerIsActivityPubMediaType" {
					if c, ok := ci.(*ssa.Call); ok && mediaHeaderIs(c, header) {
						inlineMedia = c
						inlineMethod = method
					}
				}
			}
		}
		if inlineMedia == nil && (cls == nil || n != 1) {
			res.bad("C07-R1", ep.name, p.pos(fn), "classifier "+ep.classifier+" called exactly once", fmt.Sprintf("found %d calls", n))
			continue
		}
		classified := func(ins ssa.Instruction) bool {
			if inlineMedia != nil {
				return ff.has(ins, inlineMedia, fTRUE, "") && ff.hasName(ins, "param:r->Method", fEQ, "const:"+inlineMethod)
			}
			return ff.has(ins, cls, fTRUE, "")
		}
		var flagV ssa.Value
		if ep.flag != "" {
			flagV = flagLoad(fn, ep.flag)
			if flagV == nil {
				res.bad("C07-R2", ep.name, p.pos(fn), "protocol flag "+ep.flag+" is read", "no load of the flag found in the entry point")
			}
		}
		var auth, authz gateInfo
		if ep.authGate != "" {
			var n int
			auth, n = findDelegateGate(E, fn, ep.authGate, 1, 2)
			if n != 1 || auth.okV == nil || auth.errV == nil {
				res.bad("C07-R3", ep.name, p.pos(fn), "delegate."+ep.authGate+" called exactly once with both results used", fmt.Sprintf("found %d calls; ok extract %v, err extract %v", n, auth.okV != nil, auth.errV != nil))
				continue
			}
		}
		if ep.authzGate != "" {
			var n int
			authz, n = findDelegateGate(E, fn, ep.authzGate, 0, 1)
			if n != 1 || authz.okV == nil || authz.errV == nil {
				res.bad("C07-R4", ep.name, p.pos(fn), "delegate."+ep.authzGate+" called exactly once with both results used", fmt.Sprintf("found %d calls", n))
				continue
			}
		}
		for _, ci := range E.byFn[fn] {
			if cls != nil && ci.Instr == ssa.CallInstruction(cls) {
				continue
			}
			if inlineMedia != nil && (ci.Instr == ssa.CallInstruction(inlineMedia) || ssa.Value(asCall(ci.Instr)) == inlineMedia.Call.Args[0]) {
				// the classification itself: the media-type test is evaluated where the method matched
				if ci.Instr == ssa.CallInstruction(inlineMedia) {
					res.check(ff.hasName(ci.Instr, "param:r->Method", fEQ, "const:"+inlineMethod), "C07-R6", ep.name, p.pos(ci.Instr), "media-type test evaluated only where r.Method == \""+inlineMethod+"\"", "facts: "+ff.describe(ci.Instr))
				}
				continue
			}
			if !ff.reachable(ci.Instr) {
				continue
			}
			what := fmt.Sprintf("%s [%s]", ci.Label, ci.Trans)
			pos := p.pos(ci.Instr)
			// R1
			res.check(classified(ci.Instr), "C07-R1", ep.name, pos, what+" only after "+ep.classifier+"(r)==true",
				"facts here: "+ff.describe(ci.Instr))
			// R2
			if flagV != nil && (ci.Trans&(eGATE|eHOOK|eSIDE) != 0) {
				res.check(ff.has(ci.Instr, flagV, fTRUE, ""), "C07-R2", ep.name, pos, what+" only with "+ep.flag+"==true",
					"facts here: "+ff.describe(ci.Instr))
			}
			// R3
			if auth.present && ci.Instr != ssa.CallInstruction(auth.call) && ci.Trans&eSIDE != 0 {
				nGated++
				ok := ff.has(ci.Instr, auth.errV, fNIL, "") && ff.has(ci.Instr, auth.okV, fTRUE, "")
				res.check(ok, "C07-R3", ep.name, pos, what+" only after "+ep.authGate+" succeeded (err==nil ∧ authenticated)",
					"entry "+ep.name+"; facts at the call: "+ff.describe(ci.Instr))
			}
			// R4
			if authz.present && ci.Instr != ssa.CallInstruction(authz.call) && ci.Instr != ssa.CallInstruction(auth.call) && ci.Trans&eSIDE != 0 {
				ok := ff.has(ci.Instr, authz.errV, fNIL, "") && ff.has(ci.Instr, authz.okV, fTRUE, "")
				res.check(ok, "C07-R4", ep.name, pos, what+" only after "+ep.authzGate+" succeeded (err==nil ∧ authorized)",
					"entry "+ep.name+"; facts at the call: "+ff.describe(ci.Instr))
			}
		}
		// forwarder
		if ep.forwarder != "" {
			checkPureForward(res, p, E, "C07-R6", ep.forwarder, strings.TrimSuffix(ep.name, "$1"))
		}
	}
	res.Count("effectful call sites gated by authentication", nGated, 4)

	// R4 second half: AuthorizePostInbox returns true only after Blocked said no.
	if fn := p.MustFunc(res, "C07-R4", "sideEffectActor.AuthorizePostInbox"); fn != nil {
		ff := computeFacts(fn)
		var blocked *ssa.Call
		for _, ci := range E.byFn[fn] {
			if ci.Label == "FederatingProtocol.Blocked" {
				blocked, _ = ci.Instr.(*ssa.Call)
			}
		}
		if blocked == nil {
			res.bad("C07-R4", fname(fn), p.pos(fn), "AuthorizePostInbox consults FederatingProtocol.Blocked", "no such call")
		} else {
			bv, ev := extractOf(blocked, 0), extractOf(blocked, 1)
			nTrue := 0
			for _, r := range returnsIn(fn) {
				v := ff.resolve(r, r.Results[0])
				if b, isC := boolConst(v); isC && !b {
					continue
				}
				nTrue++
				ok := bv != nil && ev != nil && ff.has(r, ev, fNIL, "") && ff.has(r, bv, fFALSE, "")
				res.check(ok, "C07-R4", fname(fn), p.pos(r), "return authorized!=false only where Blocked returned err==nil ∧ blocked==false", "facts at the return: "+ff.describe(r))
			}
			res.check(nTrue >= 1, "C07-R4", fname(fn), p.pos(fn), "AuthorizePostInbox has a path that authorizes", "no return can yield true")
		}
	}

	// R5 gate purity
	type pure struct {
		fn, app string
		allowed Eff
	}
	for _, g := range []pure{
		{"sideEffectActor.AuthenticatePostInbox", "FederatingProtocol.AuthenticatePostInbox", eGATE},
		{"sideEffectActor.AuthenticateGetInbox", "CommonBehavior.AuthenticateGetInbox", eGATE},
		{"sideEffectActor.AuthenticatePostOutbox", "SocialProtocol.AuthenticatePostOutbox", eGATE},
		{"sideEffectActor.AuthenticateGetOutbox", "CommonBehavior.AuthenticateGetOutbox", eGATE},
		{"sideEffectActor.PostInboxRequestBodyHook", "FederatingProtocol.PostInboxRequestBodyHook", eHOOK},
		{"sideEffectActor.PostOutboxRequestBodyHook", "SocialProtocol.PostOutboxRequestBodyHook", eHOOK},
		{"sideEffectActor.GetInbox", "FederatingProtocol.GetInbox", eAPPREAD},
		{"sideEffectActor.GetOutbox", "CommonBehavior.GetOutbox", eAPPREAD},
	} {
		fn := p.MustFunc(res, "C07-R5", g.fn)
		if fn == nil {
			continue
		}
		var eff []string
		for _, ci := range E.byFn[fn] {
			if ci.Trans != 0 {
				eff = append(eff, ci.Label)
			}
		}
		res.check(len(eff) == 1 && eff[0] == g.app && E.summary[fn] == g.allowed, "C07-R5", g.fn, p.pos(fn),
			"only effect is one call of "+g.app, fmt.Sprintf("effectful calls: %v, summary %s", eff, E.summary[fn]))
	}
	if fn := p.Func("sideEffectActor.AuthorizePostInbox"); fn != nil {
		var extra []string
		for _, ci := range E.byFn[fn] {
			if ci.Trans != 0 && ci.Label != "FederatingProtocol.Blocked" && ci.Label != "ResponseWriter.WriteHeader" {
				extra = append(extra, ci.Label+" ["+ci.Trans.String()+"]")
			}
		}
		res.check(len(extra) == 0, "C07-R5", fname(fn), p.pos(fn), "effects of AuthorizePostInbox ⊆ {Blocked, WriteHeader}", fmt.Sprintf("other effectful calls: %v", extra))
	}

	// R6 classifiers
	checkClassifier(res, p, "isActivityPubPost", "POST", "Content-Type")
	checkClassifier(res, p, "isActivityPubGet", "GET", "Accept")

	checkCtorFlags(res, p)
	res.Assumptions = append(res.Assumptions,
		"a custom DelegateActor (NewCustomActor) is application code: its methods are treated as application effects of the like-named role",
		"code outside package pub cannot reach application code except through values pub hands to it (checked by C07-R0)",
		"CFG paths over-approximate feasible paths; facts are must-facts (intersection at joins)")
	res.Undecided = []string{"which header strings strings.Contains accepts as an ActivityPub media type (value level)", "behaviour of a custom DelegateActor"}
	res.Trusted = []string{"go/types, go/ssa (x/tools v0.29.0)", "the checker's effect table (e1_effects.go) and fact evaluator (e2_facts.go)"}
}

// checkPureForward: function `from` consists of one call to `to` whose results
// it returns unchanged, and nothing else with an effect.
func checkPureForward(res *Result, p *Pub, E *Effects, rule, from, to string) {
	fn := p.MustFunc(res, rule, from)
	if fn == nil {
		return
	}
	n := 0
	okShape := true
	for _, ci := range E.byFn[fn] {
		callee := ci.Instr.Common().StaticCallee()
		if callee != nil && fname(callee) == to {
			n++
		} else if ci.Trans != 0 {
			okShape = false
		}
	}
	res.check(n == 1 && okShape && len(fn.Blocks) == 1, rule, from, p.pos(fn), from+" is a pure forward to "+to, fmt.Sprintf("calls to target: %d, other effects: %v, blocks: %d", n, !okShape, len(fn.Blocks)))
}

// mediaHeaderIs: the argument of headerIsActivityPubMediaType is r.Header.Get(<header>).
func mediaHeaderIs(media *ssa.Call, header string) bool {
	if c, ok := media.Call.Args[0].(*ssa.Call); ok && staticName(c) == "(http.Header).Get" && len(c.Call.Args) == 2 {
		if s, ok := stringConst(c.Call.Args[1]); ok && s == header {
			if base, ok := loadOfField(c.Call.Args[0], "Header"); ok {
				_, isP := base.(*ssa.Parameter)
				return isP
			}
		}
	}
	return false
}

func asCall(ci ssa.CallInstruction) *ssa.Call {
	c, _ := ci.(*ssa.Call)
	return c
}

func checkClassifier(res *Result, p *Pub, name, method, header string) {
	if !p.HasFunc(name) {
		// written out in the entry points (checked there by C07-R1/R6)
		res.ok("C07-R6", name, "-", name+" is written out in its callers: the method and media-type tests are checked at each entry point")
		return
	}
	fn := p.MustFunc(res, "C07-R6", name)
	if fn == nil {
		return
	}
	ff := computeFacts(fn)
	var media *ssa.Call
	for _, ci := range callsIn(fn) {
		if f := ci.Common().StaticCallee(); f != nil && f.Name() == "headerIsActivityPubMediaType" {
			media, _ = ci.(*ssa.Call)
		}
	}
	if media == nil {
		res.bad("C07-R6", name, p.pos(fn), name+" tests the media type", "no call of headerIsActivityPubMediaType")
		return
	}
	// media-type argument: r.Header.Get(<header>)
	hdrOK := false
	if c, ok := media.Call.Args[0].(*ssa.Call); ok && staticName(c) == "(http.Header).Get" && len(c.Call.Args) == 2 {
		if s, ok := stringConst(c.Call.Args[1]); ok && s == header {
			if base, ok := loadOfField(c.Call.Args[0], "Header"); ok {
				_, hdrOK = base.(*ssa.Parameter)
			}
		}
	}
	res.check(hdrOK, "C07-R6", name, p.pos(media), "media type read from request header "+header, "argument is not r.Header.Get(\""+header+"\")")
	// method test holds at the media call
	res.check(ff.hasName(media, "param:r->Method", fEQ, "const:"+method), "C07-R6", name, p.pos(media), "media-type test evaluated only where r.Method == \""+method+"\"", "facts: "+ff.describe(media))
	// every return: the media call's result, constant false, or a merge of such values
	var acceptable func(v ssa.Value, depth int) bool
	acceptable = func(v ssa.Value, depth int) bool {
		if b, isC := boolConst(v); isC && !b {
			return true
		}
		if v == ssa.Value(media) {
			return true
		}
		if phi, isPhi := v.(*ssa.Phi); isPhi && depth < 6 {
			for _, e := range phi.Edges {
				if !acceptable(e, depth+1) {
					return false
				}
			}
			return true
		}
		return false
	}
	for _, r := range returnsIn(fn) {
		ok := acceptable(r.Results[0], 0)
		res.check(ok, "C07-R6", name, p.pos(r), "result is (method test) && (media-type test)", "the returned value is neither false nor the media-type test (nor a merge of the two)")
	}
}
