package main

import (
	"fmt"
	"go/token"

	"golang.org/x/tools/go/packages"
	"golang.org/x/tools/go/ssa"
	"golang.org/x/tools/go/ssa/ssautil"
)

// SSA form of package streams (the resolvers); dependencies from type
// information only.

var streamsRootSSACache *ssa.Package

func loadStreamsRootSSA() *ssa.Package {
	if streamsRootSSACache != nil {
		return streamsRootSSACache
	}
	pkgs := loadPkgs(packages.LoadSyntax, false, "./streams")
	_, spkgs := ssautil.Packages(pkgs, ssa.BuilderMode(0))
	for _, sp := range spkgs {
		if sp != nil {
			sp.Build()
			streamsRootSSACache = sp
		}
	}
	return streamsRootSSACache
}

func methodOf(sp *ssa.Package, typ, name string) *ssa.Function {
	t := sp.Type(typ)
	if t == nil {
		return nil
	}
	for _, recv := range []interface{ String() string }{} {
		_ = recv
	}
	ms := sp.Prog.MethodSets.MethodSet(t.Type())
	for i := 0; i < ms.Len(); i++ {
		if ms.At(i).Obj().Name() == name {
			return sp.Prog.MethodValue(ms.At(i))
		}
	}
	return nil
}

// checkC14SSA: value-flow clauses of the resolvers that the statement-form
// rules do not reach.
func checkC14SSA(res *Result) {
	sp := loadStreamsRootSSA()
	if sp == nil {
		res.undecided("C14-R2", "streams", "-", "package streams in SSA form", "not built")
		return
	}
	pos := func(p interface{ Pos() token.Pos }) string { return relPos(sp.Prog.Fset, p.Pos()) }

	// R2b: Apply hands the value to the delegate only where the predicate returned (true, nil)
	res.Rule("C14-R2b", "TypePredicatedResolver.Apply calls delegate.Resolve only where the predicate returned (true, nil); a predicate error is never followed by the delegate")
	if fn := methodOf(sp, "TypePredicatedResolver", "Apply"); fn == nil {
		res.undecided("C14-R2b", "TypePredicatedResolver.Apply", "-", "method found", "missing")
	} else {
		ff := computeFacts(fn)
		// the merged predicate results: phis fed by Extract #0 / #1 of dynamic calls
		var passes, perr []ssa.Value
		for _, b := range fn.Blocks {
			for _, ins := range b.Instrs {
				ph, ok := ins.(*ssa.Phi)
				if !ok {
					continue
				}
				for _, e := range ph.Edges {
					if ex, ok := e.(*ssa.Extract); ok {
						if c, ok := ex.Tuple.(*ssa.Call); ok && c.Common().StaticCallee() == nil && !c.Common().IsInvoke() {
							if ex.Index == 0 {
								passes = append(passes, ph)
							} else if ex.Index == 1 {
								perr = append(perr, ph)
							}
							break
						}
					}
				}
			}
		}
		n := 0
		for _, ci := range callsIn(fn) {
			cc := ci.Common()
			if !cc.IsInvoke() || cc.Method.Name() != "Resolve" {
				continue
			}
			n++
			okP, okE := false, false
			for _, v := range passes {
				if ff.has(ci, v, fTRUE, "") {
					okP = true
				}
			}
			for _, v := range perr {
				if ff.has(ci, v, fNIL, "") {
					okE = true
				}
			}
			res.check(okP && okE, "C14-R2b", "TypePredicatedResolver.Apply", pos(ci), "delegate.Resolve only after the predicate returned (true, nil)", fmt.Sprintf("predicate result known true: %v; predicate error known nil: %v — the delegate (and its callback) runs although the predicate failed", okP, okE))
		}
		res.Count("C14-R2b delegate calls in Apply", n, 1)
		res.check(len(passes) >= 1 && len(perr) >= 1, "C14-R2b", "TypePredicatedResolver.Apply", pos(fn), "the predicate's two results are collected", fmt.Sprintf("%d/%d merges found", len(passes), len(perr)))
	}

	// R3b: constructors keep exactly what they were given
	res.Rule("C14-R3b", "the constructors store their arguments unchanged: the resolver returned on success holds the callbacks slice (delegate, predicate) that was passed in, in the caller's order, nothing filtered, reordered or replaced")
	for _, c := range []struct {
		name   string
		fields []string
	}{{"NewJSONResolver", []string{"callbacks"}}, {"NewTypeResolver", []string{"callbacks"}}, {"NewTypePredicatedResolver", []string{"delegate", "predicate"}}} {
		fn := sp.Func(c.name)
		if fn == nil {
			res.undecided("C14-R3b", c.name, "-", "constructor found", "missing")
			continue
		}
		for _, r := range returnsIn(fn) {
			if len(r.Results) != 2 || !isNilConst(r.Results[1]) {
				continue
			}
			al, ok := unwrap(r.Results[0]).(*ssa.Alloc)
			if !ok {
				res.bad("C14-R3b", c.name, pos(r), "a success return yields a freshly built resolver", "returns "+valueLabel(r.Results[0]))
				continue
			}
			for _, f := range c.fields {
				var stored []ssa.Value
				for _, ref := range *al.Referrers() {
					if fa, ok := ref.(*ssa.FieldAddr); ok && fieldName(fa.X.Type(), fa.Field) == f {
						for _, rr := range *fa.Referrers() {
							if st, ok := rr.(*ssa.Store); ok && st.Addr == fa {
								stored = append(stored, st.Val)
							}
						}
					}
				}
				okF := len(stored) == 1
				detail := fmt.Sprintf("%d stores into %s", len(stored), f)
				if okF {
					pa, isP := unwrap(stored[0]).(*ssa.Parameter)
					okF = isP && pa.Name() == f
					if !okF {
						detail = "field " + f + " is set to " + valueLabel(stored[0]) + ", not to the argument: callbacks registered by the caller are dropped, replaced or reordered"
					}
				}
				res.check(okF, "C14-R3b", c.name, pos(r), "field "+f+" of the resolver is the argument "+f+" itself", detail)
			}
		}
	}
}
