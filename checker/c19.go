package main

// C19 — the bundled transport signs every request, finishes every batch, is race-free.

import (
	"fmt"
	"go/token"
	"go/types"
	"sort"
	"strings"

	"golang.org/x/tools/go/ssa"
)

func checkC19(res *Result) {
	p := loadPub()
	computeEffects(p)
	res.Packages = []string{p.Pkg.PkgPath}
	res.Explanation = "That the signature verifies is cryptography and not decided; actual data races inside the application's signer or client are not decided. Decided on all SSA paths of HttpSigTransport.Dereference / Deliver / BatchDeliver: the required headers (Accept or Content-Type with the ActivityStreams value, Date from the clock in RFC 7231 form, User-Agent = application agent then library agent, Host) are all set before SignRequest; SignRequest gets the actor's key, key id, that very request and — POST — the very byte slice that is the request body (GET: nil); nothing touches the request between signing and client.Do, which receives the same request; each signer is used only under its own mutex, released on every path; Dereference reads the body only where the status is 200, Deliver succeeds only where isSuccess (200/201/202) holds; BatchDeliver starts one goroutine per recipient in a loop that cannot be left early, with Add before go, Done deferred, an error channel with room for every recipient, Wait before the drain, and an error iff a failure was received; goroutines do not write captured variables and do not capture the loop variable."
	res.Rule("C19-R1", "headers, then sign, then send: all required headers dominate SignRequest; SignRequest(privKey, pubKeyId, req, body) with body = the bytes of the request (nil for GET); no use of req between SignRequest and client.Do(req)")
	res.Rule("C19-R2", "signer serialised: every SignRequest on getSigner/postSigner happens while the like-named mutex is held, and the mutex is released on every path; one mutex per signer")
	res.Rule("C19-R3", "status: Dereference reads the body only where StatusCode == 200; Deliver returns nil only where isSuccess(StatusCode); isSuccess = {200, 201, 202}")
	res.Rule("C19-R4", "batch: one goroutine per recipient (total loop), wg.Add(1) before go, deferred wg.Done, errCh capacity = len(recipients), wg.Wait before draining, error iff at least one failure, naming each")
	res.Rule("C19-R5", "no shared writes: the goroutine captures neither the loop variable nor anything it writes; transport methods never store to receiver fields")

	type reqSpec struct {
		fn, method, ctHeader, ctValue, signer string
		hasBody                               bool
	}
	for _, rs := range []reqSpec{
		{"HttpSigTransport.Dereference", "GET", "Accept", "application/ld+json; profile=\"https://www.w3.org/ns/activitystreams\"", "getSigner", false},
		{"HttpSigTransport.Deliver", "POST", "Content-Type", "application/ld+json; profile=\"https://www.w3.org/ns/activitystreams\"", "postSigner", true},
	} {
		fn := p.MustFunc(res, "C19-R1", rs.fn)
		if fn == nil {
			continue
		}
		ff := computeFacts(fn)
		var newReq, sign, do *ssa.Call
		for _, ci := range callsIn(fn) {
			c, ok := ci.(*ssa.Call)
			if !ok {
				continue
			}
			switch {
			case staticName(c) == "http.NewRequest":
				newReq = c
			case c.Common().IsInvoke() && c.Common().Method.Name() == "SignRequest":
				sign = c
			case invokeName(c) == "HttpClient.Do":
				do = c
			}
		}
		if newReq == nil || sign == nil || do == nil {
			res.bad("C19-R1", rs.fn, p.pos(fn), "the request is built, signed and sent", fmt.Sprintf("NewRequest %v, SignRequest %v, Do %v", newReq != nil, sign != nil, do != nil))
			continue
		}
		m, _ := stringConst(newReq.Call.Args[0])
		res.check(m == rs.method, "C19-R1", rs.fn, p.pos(newReq), "the request method is "+rs.method, "method "+m)
		// the request value that is signed
		req := sign.Call.Args[2]
		// req derives from NewRequest (through WithContext)
		g := flowOf(fn)
		res.check(anyBackward(g, req, func(x ssa.Value) bool { return x == ssa.Value(extractOf(newReq, 0)) }), "C19-R1", rs.fn, p.pos(sign), "the request signed is the one that was built", "no flow from NewRequest to SignRequest's request argument")
		res.check(do.Call.Args[0] == req, "C19-R1", rs.fn, p.pos(do), "the request sent is the very request that was signed", "client.Do receives a different value")
		// headers
		headers := map[string]ssa.CallInstruction{}
		for _, ci := range callsIn(fn) {
			sn := staticName(ci)
			if sn != "(http.Header).Add" && sn != "(http.Header).Set" {
				continue
			}
			base, ok := loadOfField(ci.Common().Args[0], "Header")
			if !ok || base != req {
				res.bad("C19-R1", rs.fn, p.pos(ci), "headers are set on the request that is signed", "header of another request value")
				continue
			}
			n, _ := stringConst(ci.Common().Args[1])
			headers[n] = ci
			res.check(dominates(ci, sign), "C19-R1", rs.fn, p.pos(ci), "header "+n+" is set before the request is signed", "set after (or not on every path before) SignRequest: not covered by the signature")
		}
		for _, h := range []string{rs.ctHeader, "Date", "User-Agent", "Host"} {
			res.check(headers[h] != nil, "C19-R1", rs.fn, p.pos(fn), "header "+h+" is set", "missing")
		}
		if c := headers[rs.ctHeader]; c != nil {
			v, _ := stringConst(c.Common().Args[2])
			res.check(v == rs.ctValue, "C19-R1", rs.fn, p.pos(c), rs.ctHeader+" carries the ActivityStreams media type", "value "+v)
		}
		if c := headers["Date"]; c != nil {
			ok, why := dateChain(c.Common().Args[2], "-")
			res.check(ok, "C19-R1", rs.fn, p.pos(c), "Date is clock.Now().UTC() in RFC 7231 form", why)
		}
		if c := headers["User-Agent"]; c != nil {
			okUA := false
			if sp, ok := c.Common().Args[2].(*ssa.Call); ok && staticName(sp) == "fmt.Sprintf" {
				f, _ := stringConst(sp.Call.Args[0])
				// variadic slice: stores into the backing array, in order
				var fields []string
				if sl, ok := sp.Call.Args[1].(*ssa.Slice); ok {
					if al, ok := sl.X.(*ssa.Alloc); ok {
						type st struct {
							idx  int64
							name string
						}
						var sts []st
						for _, r := range *al.Referrers() {
							if ia, ok := r.(*ssa.IndexAddr); ok {
								idx, _ := intConst(ia.Index)
								for _, r2 := range *ia.Referrers() {
									if s2, ok := r2.(*ssa.Store); ok {
										v := unwrap(s2.Val)
										for _, fld := range []string{"appAgent", "gofedAgent"} {
											if _, ok := loadOfField(v, fld); ok {
												sts = append(sts, st{idx, fld})
											}
										}
									}
								}
							}
						}
						sort.Slice(sts, func(i, j int) bool { return sts[i].idx < sts[j].idx })
						for _, s := range sts {
							fields = append(fields, s.name)
						}
					}
				}
				okUA = f == "%s %s" && strings.Join(fields, ",") == "appAgent,gofedAgent"
			}
			res.check(okUA, "C19-R1", rs.fn, p.pos(c), "User-Agent is \"<application agent> <library agent>\"", "not Sprintf(\"%s %s\", h.appAgent, h.gofedAgent)")
		}
		if c := headers["Host"]; c != nil {
			_, ok := loadOfField(c.Common().Args[2], "Host")
			res.check(ok, "C19-R1", rs.fn, p.pos(c), "Host is the host of the target IRI", "different value")
		}
		// SignRequest arguments
		_, okK := loadOfField(sign.Call.Args[0], "privKey")
		_, okI := loadOfField(sign.Call.Args[1], "pubKeyId")
		res.check(okK && okI, "C19-R1", rs.fn, p.pos(sign), "the signer gets the actor's private key and key id", "different arguments")
		_, okS := loadOfField(sign.Common().Value, rs.signer)
		res.check(okS, "C19-R1", rs.fn, p.pos(sign), "the "+rs.method+" request is signed with "+rs.signer, "signed with "+valueLabel(sign.Common().Value))
		if rs.hasBody {
			// NewRequest body = bytes.NewReader(b); SignRequest body == b
			var rd *ssa.Call
			for x := range g.backward(newReq.Call.Args[2]) {
				if c, ok := x.(*ssa.Call); ok && staticName(c) == "bytes.NewReader" {
					rd = c
				}
			}
			okB := rd != nil && rd.Call.Args[0] == sign.Call.Args[3] && isParamNamed(sign.Call.Args[3], "b")
			res.check(okB, "C19-R1", rs.fn, p.pos(sign), "the bytes given to the signer are exactly the bytes of the request body", "the body sent and the body signed are different values")
		} else {
			res.check(isNilConst(sign.Call.Args[3]), "C19-R1", rs.fn, p.pos(sign), "a GET is signed without a body", "non-nil body argument")
			res.check(isNilConst(newReq.Call.Args[2]), "C19-R1", rs.fn, p.pos(newReq), "a GET is sent without a body", "non-nil body")
		}
		// nothing touches req between sign and do
		for _, ci := range callsIn(fn) {
			if ci == ssa.CallInstruction(sign) || ci == ssa.CallInstruction(do) {
				continue
			}
			if !(reachesInstr(sign, ci) && reachesInstr(ci, do)) {
				continue
			}
			uses := false
			for _, a := range append([]ssa.Value{ci.Common().Value}, ci.Common().Args...) {
				if a == nil {
					continue
				}
				if a == req {
					uses = true
				}
				if b, ok := loadOfField(a, "Header"); ok && b == req {
					uses = true
				}
			}
			res.check(!uses, "C19-R1", rs.fn, p.pos(ci), "the request is not touched between signing and sending", callName(ci)+" uses the request after it was signed")
		}
		res.check(dominates(sign, do) && ff.has(do, sign, fNIL, ""), "C19-R1", rs.fn, p.pos(do), "the request is sent only after it was signed successfully", "facts: "+ff.describe(do))

		// R3
		if !rs.hasBody {
			for _, ci := range callsIn(fn) {
				if staticName(ci) == "ioutil.ReadAll" || staticName(ci) == "io.ReadAll" {
					s := ff.at[ci]
					ok200 := false
					if s != nil {
						for f := range s.facts {
							if f.k == fEQ && f.c == "const:200" {
								for v, n := range ff.ids {
									if fmt.Sprintf("v%d", n) == f.v {
										if _, ok := loadOfField(v, "StatusCode"); ok {
											ok200 = true
										}
									}
								}
							}
						}
					}
					res.check(ok200, "C19-R3", rs.fn, p.pos(ci), "the body is returned only for status 200", "facts: "+ff.describe(ci))
				}
			}
		} else {
			n := 0
			for _, r := range returnsIn(fn) {
				mn, _ := ff.errStatus(r, 0)
				if !mn || !ff.reachable(r) {
					continue
				}
				n++
				s := ff.at[r]
				okS := false
				if s != nil {
					for f := range s.facts {
						if f.k == fTRUE && strings.HasPrefix(f.v, "pure:isSuccess(") {
							okS = true
						}
					}
				}
				res.check(okS, "C19-R3", rs.fn, p.pos(r), "Deliver reports success only where isSuccess(status) holds", "facts: "+ff.describe(r))
			}
			res.check(n == 1, "C19-R3", rs.fn, p.pos(fn), "one success exit", fmt.Sprintf("%d", n))
			for _, ci := range callsIn(fn) {
				if f := ci.Common().StaticCallee(); f != nil && f.Name() == "isSuccess" {
					_, ok := loadOfField(ci.Common().Args[0], "StatusCode")
					res.check(ok, "C19-R3", rs.fn, p.pos(ci), "isSuccess is asked about the response status", "different argument")
				}
			}
		}
	}
	if f := p.MustFunc(res, "C19-R3", "isSuccess"); f != nil {
		codes := map[int64]bool{}
		for _, b := range f.Blocks {
			for _, ins := range b.Instrs {
				if bo, ok := ins.(*ssa.BinOp); ok && bo.Op.String() == "==" {
					if n, ok := intConst(bo.Y); ok && isParamNamed(bo.X, "code") {
						codes[n] = true
					}
				}
			}
		}
		var cs []string
		for c := range codes {
			cs = append(cs, fmt.Sprint(c))
		}
		sort.Strings(cs)
		res.check(strings.Join(cs, ",") == "200,201,202", "C19-R3", "isSuccess", p.pos(f), "isSuccess accepts exactly 200, 201, 202", "codes: "+strings.Join(cs, ","))
		// result is the disjunction: every return is phi(true..., last comparison)
	}
	if f := p.MustFunc(res, "C19-R1", "NewHttpSigTransport"); f != nil {
		ok := false
		for _, ci := range callsIn(f) {
			if sc := ci.Common().StaticCallee(); sc != nil && sc.Name() == "goFedUserAgent" {
				ok = true
			}
		}
		res.check(ok, "C19-R1", fname(f), p.pos(f), "the library agent is goFedUserAgent()", "not called in the constructor")
	}

	// R2: mutexes
	checkTransportMutexes(res, p)

	// R4/R5
	if fn := p.MustFunc(res, "C19-R4", "HttpSigTransport.BatchDeliver"); fn != nil {
		ff := computeFacts(fn)
		var goIns *ssa.Go
		nGo := 0
		for _, b := range fn.Blocks {
			for _, ins := range b.Instrs {
				if g, ok := ins.(*ssa.Go); ok {
					goIns = g
					nGo++
				}
			}
		}
		if nGo != 1 {
			res.bad("C19-R4", fname(fn), p.pos(fn), "one go statement", fmt.Sprintf("%d", nGo))
		} else {
			tot, why := totalLoop(loopBlocks(goIns.Block()), func(*ssa.Return) bool { return false })
			res.check(inLoop(goIns) && tot, "C19-R4", fname(fn), p.pos(goIns), "one goroutine per recipient: the loop over recipients cannot be left early", why)
			// the loop ranges over the recipients parameter
			rangesRecipients := false
			for _, b := range fn.Blocks {
				for _, ins := range b.Instrs {
					if ia, ok := ins.(*ssa.IndexAddr); ok && isParamNamed(ia.X, "recipients") && loopBlocks(goIns.Block())[b] {
						rangesRecipients = true
					}
				}
			}
			res.check(rangesRecipients, "C19-R4", fname(fn), p.pos(goIns), "the loop iterates the recipients passed in", "different slice")
			var add, wait *ssa.Call
			for _, ci := range callsIn(fn) {
				switch staticName(ci) {
				case "(sync.WaitGroup).Add":
					add, _ = ci.(*ssa.Call)
				case "(sync.WaitGroup).Wait":
					wait, _ = ci.(*ssa.Call)
				}
			}
			okAdd := false
			if add != nil {
				n, ok := intConst(add.Call.Args[1])
				okAdd = ok && n == 1 && dominates(add, goIns) && add.Block() == goIns.Block()
			}
			res.check(okAdd, "C19-R4", fname(fn), p.pos(goIns), "wg.Add(1) precedes each go statement in the same iteration", "missing or misplaced")
			// closure
			// the function started: a closure of BatchDeliver or a function/method of package pub
			var cl *ssa.Function
			if mc, _ := goIns.Call.Value.(*ssa.MakeClosure); mc != nil {
				cl = mc.Fn.(*ssa.Function)
			} else if sc := goIns.Call.StaticCallee(); sc != nil && sc.Pkg == fn.Pkg && sc.Blocks != nil {
				cl = sc
			}
			if cl == nil {
				res.bad("C19-R4", fname(fn), p.pos(goIns), "the goroutine body is a closure or a function of package pub", "started function cannot be resolved")
			} else {
				okDone := false
				for _, b := range cl.Blocks {
					for _, ins := range b.Instrs {
						if d, ok := ins.(*ssa.Defer); ok && staticName(d) == "(sync.WaitGroup).Done" && b == cl.Blocks[0] {
							okDone = true
						}
					}
				}
				res.check(okDone, "C19-R4", fname(cl), p.pos(cl), "the goroutine defers wg.Done() first thing", "no deferred Done in the entry block")
				// R5: no stores through free variables, loop variable not captured
				for _, fv := range cl.FreeVars {
					for _, r := range *fv.Referrers() {
						switch u := r.(type) {
						case *ssa.Store:
							if u.Addr == ssa.Value(fv) {
								res.bad("C19-R5", fname(cl), p.pos(u), "the goroutine does not write captured variable "+fv.Name(), "store to a variable shared by all goroutines of the batch")
							}
						}
					}
				}
				for _, b := range cl.Blocks {
					for _, ins := range b.Instrs {
						switch u := ins.(type) {
						case *ssa.Store:
							base := u.Addr
							for _, c := range containers(base) {
								if _, isFV := c.(*ssa.FreeVar); isFV && c != base {
									res.bad("C19-R5", fname(cl), p.pos(u), "the goroutine does not write through captured variables", "store into data shared by all goroutines of the batch")
								}
							}
						case *ssa.MapUpdate:
							for _, c := range containers(u.Map) {
								if _, isFV := c.(*ssa.FreeVar); isFV {
									res.bad("C19-R5", fname(cl), p.pos(u), "the goroutine does not update a captured map", "shared map written concurrently")
								}
							}
						case ssa.CallInstruction:
							if bi, ok := u.Common().Value.(*ssa.Builtin); ok && bi.Name() == "append" {
								for _, c := range containers(u.Common().Args[0]) {
									if _, isFV := c.(*ssa.FreeVar); isFV {
										res.bad("C19-R5", fname(cl), p.pos(u), "the goroutine does not append to a captured slice", "shared slice grown concurrently: failures are lost or the batch races")
									}
								}
							}
						}
					}
				}
				res.ok("C19-R5", fname(cl), p.pos(cl), fmt.Sprintf("goroutine captures %d variables, scanned for writes", len(cl.FreeVars)))
				// the recipient is passed as an argument, errors go to the channel
				// writes through pointer parameters (a goroutine started as a method/function)
				for _, b := range cl.Blocks {
					for _, ins := range b.Instrs {
						if u, ok := ins.(*ssa.Store); ok {
							for _, c := range containers(u.Addr) {
								if prm, isP := c.(*ssa.Parameter); isP && c != u.Addr {
									res.bad("C19-R5", fname(cl), p.pos(u), "the goroutine does not write through its pointer parameters", "store into data reachable from parameter "+prm.Name()+", shared by all goroutines of the batch")
								}
							}
						}
					}
				}
				sends := 0
				var deliver *ssa.Call
				for _, b := range cl.Blocks {
					for _, ins := range b.Instrs {
						if s, ok := ins.(*ssa.Send); ok {
							sends++
							_ = s
						}
						if c, ok := ins.(*ssa.Call); ok && c.Common().StaticCallee() != nil && fname(c.Common().StaticCallee()) == "HttpSigTransport.Deliver" {
							deliver = c
						}
					}
				}
				res.check(deliver != nil && sends == 1, "C19-R4", fname(cl), p.pos(cl), "each goroutine makes one delivery attempt and reports a failure on the channel", fmt.Sprintf("Deliver call found: %v, channel sends: %d", deliver != nil, sends))
				if deliver != nil {
					// the target is a parameter of the goroutine body (not a captured loop variable) and the
					// go statement passes the loop's element for it
					tp, _ := unwrap(deliver.Call.Args[3]).(*ssa.Parameter)
					okT := false
					if tp != nil {
						for i, prm := range cl.Params {
							if prm != tp {
								continue
							}
							// index of the actual argument: closures and plain functions take Args[i]
							if i < len(goIns.Call.Args) {
								a := unwrap(goIns.Call.Args[i])
								if u, ok := a.(*ssa.UnOp); ok {
									if ia, ok := u.X.(*ssa.IndexAddr); ok && isParamNamed(ia.X, "recipients") {
										okT = true
									}
								}
							}
						}
					}
					res.check(okT, "C19-R4", fname(cl), p.pos(deliver), "the attempt goes to the goroutine's own recipient: a parameter that receives the loop's element (not a captured loop variable)", "target "+valueLabel(deliver.Call.Args[3]))
				}
			}
			// channel capacity
			okCap := false
			for _, b := range fn.Blocks {
				for _, ins := range b.Instrs {
					if mk, ok := ins.(*ssa.MakeChan); ok {
						if c, ok := mk.Size.(*ssa.Call); ok {
							if bi, ok := c.Common().Value.(*ssa.Builtin); ok && bi.Name() == "len" && isParamNamed(c.Common().Args[0], "recipients") {
								okCap = true
							}
						}
					}
				}
			}
			res.check(okCap, "C19-R4", fname(fn), p.pos(fn), "the error channel has room for every recipient (no goroutine can block on it)", "capacity is not len(recipients)")
			// Wait dominates the drain (select receive) and every return
			if wait == nil {
				res.bad("C19-R4", fname(fn), p.pos(fn), "BatchDeliver waits for all goroutines", "no wg.Wait()")
			} else {
				for _, r := range returnsIn(fn) {
					res.check(dominates(wait, r), "C19-R4", fname(fn), p.pos(r), "no return before every attempt has finished", "a return is not dominated by wg.Wait()")
				}
				for _, b := range fn.Blocks {
					for _, ins := range b.Instrs {
						if sel, ok := ins.(*ssa.Select); ok {
							res.check(dominates(wait, sel) && !sel.Blocking, "C19-R4", fname(fn), p.pos(sel), "failures are drained after Wait, without blocking", "drain before Wait or blocking receive")
						}
					}
				}
			}
			checkDrainTotal(res, p, fn, wait)
			// error iff len(errs) > 0
			for _, r := range returnsIn(fn) {
				mn, nn := ff.errStatus(r, 0)
				s := ff.at[r]
				var lenFact string // "true": some failures collected; "false": none
				if s != nil {
					for f := range s.facts {
						if f.k != fTRUE && f.k != fFALSE {
							continue
						}
						for v, n := range ff.ids {
							if fmt.Sprintf("v%d", n) == f.v {
								if bo, ok := v.(*ssa.BinOp); ok {
									if c, ok := bo.X.(*ssa.Call); ok {
										if bi, ok := c.Common().Value.(*ssa.Builtin); ok && bi.Name() == "len" {
											if z, ok := intConst(bo.Y); ok && z == 0 {
												holds := f.k == fTRUE
												switch bo.Op {
												case token.GTR, token.NEQ: // len > 0, len != 0
													lenFact = map[bool]string{true: "true", false: "false"}[holds]
												case token.EQL, token.LEQ: // len == 0, len <= 0
													lenFact = map[bool]string{true: "false", false: "true"}[holds]
												}
											}
										}
									}
								}
							}
						}
					}
				}
				if nn && !mn {
					res.check(lenFact == "true", "C19-R4", fname(fn), p.pos(r), "an error is returned only if a failure was collected", "facts: "+ff.describe(r))
					// the error names each failure: Join of errs
					g := flowOf(fn)
					res.check(anyBackward(g, r.Results[0], func(x ssa.Value) bool { return isCallNamed(x, "strings.Join") }) && anyBackward(g, r.Results[0], func(x ssa.Value) bool {
						c, ok := x.(*ssa.Call)
						return ok && c.Common().IsInvoke() && c.Common().Method.Name() == "Error"
					}), "C19-R4", fname(fn), p.pos(r), "the error names every collected failure", "not built from all received errors")
				} else if mn && !nn {
					res.check(lenFact == "false", "C19-R4", fname(fn), p.pos(r), "nil is returned only if no failure was collected", "facts: "+ff.describe(r))
				}
			}
		}
	}
	// R5: value receivers, no field stores
	for _, f := range p.Funcs {
		if !strings.HasPrefix(fname(f), "HttpSigTransport.") {
			continue
		}
		if recv := f.Signature.Recv(); recv != nil {
			_, isPtr := recv.Type().(*types.Pointer)
			res.check(!isPtr, "C19-R5", fname(f), p.pos(f), "transport method has a value receiver (works on a copy of the configuration)", "pointer receiver: fields are shared between concurrent calls")
		}
		for _, b := range f.Blocks {
			for _, ins := range b.Instrs {
				if st, ok := ins.(*ssa.Store); ok {
					if fa, ok := st.Addr.(*ssa.FieldAddr); ok && typeIs(fa.X.Type(), modPath+"/pub", "HttpSigTransport") {
						if _, isParamSpill := st.Val.(*ssa.Parameter); !isParamSpill {
							res.bad("C19-R5", fname(f), p.pos(st), "transport methods never write transport fields", "store to field "+fieldName(fa.X.Type(), fa.Field))
						}
					}
				}
			}
		}
	}
	res.Assumptions = append(res.Assumptions, "httpsig.Signer signs what it is given (cryptography is not examined)", "net/http sends the request as handed to Do", "module go directive 1.12: per-loop (not per-iteration) loop variables, hence the capture rule")
	res.Undecided = []string{"that the produced signature verifies", "data races inside the application's HttpClient / Signer implementations"}
	res.Trusted = []string{"go/types, go/ssa, go/cfg (x/tools v0.29.0)", "e2_facts.go, e3_lock.go, e4_flow.go"}
}

// checkTransportMutexes: must/may-held dataflow over SSA with sync.Mutex as the
// lock, keyed by the transport field the mutex value is loaded from, and
// SignRequest as the protected access. (SSA rather than the syntax-level E3:
// the mutex and the signer may reach the call through locals or through the
// parameters of an expanded helper; in SSA they are the same field loads.)
func checkTransportMutexes(res *Result, p *Pub) {
	fieldOf := func(v ssa.Value) string {
		v = unwrap(v)
		switch x := v.(type) {
		case *ssa.UnOp:
			if fa, ok := x.X.(*ssa.FieldAddr); ok {
				return fieldName(fa.X.Type(), fa.Field)
			}
		case *ssa.Field:
			return fieldName(x.X.Type(), x.Field)
		}
		return "?" + valueLabel(v)
	}
	type st struct{ must, may map[string]bool }
	clone := func(a st) st {
		b := st{map[string]bool{}, map[string]bool{}}
		for k := range a.must {
			b.must[k] = true
		}
		for k := range a.may {
			b.may[k] = true
		}
		return b
	}
	nSign := 0
	for _, f := range p.Funcs {
		root := f
		for root.Parent() != nil {
			root = root.Parent()
		}
		if !strings.HasPrefix(fname(root), "HttpSigTransport.") {
			continue
		}
		touches := false
		for _, ci := range callsIn(f) {
			sn := staticName(ci)
			if sn == "(sync.Mutex).Lock" || sn == "(sync.Mutex).Unlock" || ci.Common().IsInvoke() && ci.Common().Method.Name() == "SignRequest" {
				touches = true
			}
		}
		if !touches {
			continue
		}
		in := map[*ssa.BasicBlock]st{}
		have := map[*ssa.BasicBlock]bool{}
		in[f.Blocks[0]] = st{map[string]bool{}, map[string]bool{}}
		have[f.Blocks[0]] = true
		type finding struct {
			pos  ssa.Instruction
			desc string
			ok   bool
			det  string
		}
		var report func(final bool, b *ssa.BasicBlock, s st) st
		found := map[string]finding{}
		add := func(final bool, ins ssa.Instruction, desc string, ok bool, det string) {
			if final {
				found[p.pos(ins)+desc] = finding{ins, desc, ok, det}
			}
		}
		report = func(final bool, b *ssa.BasicBlock, s st) st {
			s = clone(s)
			deferred := []string{}
			_ = deferred
			for _, ins := range b.Instrs {
				switch x := ins.(type) {
				case *ssa.Defer:
					if staticName(x) == "(sync.Mutex).Unlock" {
						s.may["defer:"+fieldOf(x.Call.Args[0])] = true
						s.must["defer:"+fieldOf(x.Call.Args[0])] = true
					}
				case *ssa.RunDefers:
					for k := range s.may {
						if strings.HasPrefix(k, "defer:") {
							n := strings.TrimPrefix(k, "defer:")
							if s.must[k] {
								delete(s.must, n)
								delete(s.may, n)
							}
						}
					}
				case *ssa.Call:
					// through sync.Locker: the interface value wraps the mutex field
					lockerOp := func(name string) (string, bool) {
						if x.Common().IsInvoke() && x.Common().Method.Name() == name && x.Common().Method.Pkg() != nil && x.Common().Method.Pkg().Path() == "sync" {
							if n := fieldOf(x.Common().Value); !strings.HasPrefix(n, "?") {
								return n, true
							}
						}
						return "", false
					}
					if n, ok := lockerOp("Lock"); ok {
						add(final, x, "mutex "+n+" is not locked again while it may be held", !s.may[n], "Lock while held: self-deadlock")
						s.must[n], s.may[n] = true, true
						continue
					}
					if n, ok := lockerOp("Unlock"); ok {
						add(final, x, "mutex "+n+" is held where it is unlocked", s.must[n], "Unlock of a mutex that is not held on every path here")
						delete(s.must, n)
						delete(s.may, n)
						continue
					}
					switch {
					case staticName(x) == "(sync.Mutex).Lock":
						n := fieldOf(x.Call.Args[0])
						add(final, x, "mutex "+n+" is not locked again while it may be held", !s.may[n], "Lock while held: self-deadlock")
						s.must[n], s.may[n] = true, true
					case staticName(x) == "(sync.Mutex).Unlock":
						n := fieldOf(x.Call.Args[0])
						add(final, x, "mutex "+n+" is held where it is unlocked", s.must[n], "Unlock of a mutex that is not held on every path here")
						delete(s.must, n)
						delete(s.may, n)
					case x.Common().IsInvoke() && x.Common().Method.Name() == "SignRequest":
						signer := fieldOf(x.Common().Value)
						want := signer + "Mu"
						var held []string
						for k := range s.must {
							if !strings.HasPrefix(k, "defer:") {
								held = append(held, k)
							}
						}
						sort.Strings(held)
						add(final, x, "SignRequest on "+signer+" happens while "+want+" is held", s.must[want], "held on every path here: {"+strings.Join(held, ",")+"}")
					}
				case *ssa.Return:
					var left []string
					for k := range s.may {
						if !strings.HasPrefix(k, "defer:") {
							left = append(left, k)
						}
					}
					sort.Strings(left)
					add(final, x, "every signer mutex is released at this return", len(left) == 0, "may still be held: {"+strings.Join(left, ",")+"}")
				}
			}
			return s
		}
		work := []*ssa.BasicBlock{f.Blocks[0]}
		for len(work) > 0 {
			b := work[0]
			work = work[1:]
			out := report(false, b, in[b])
			for _, sc := range b.Succs {
				if !have[sc] {
					have[sc] = true
					in[sc] = clone(out)
					work = append(work, sc)
					continue
				}
				cur := in[sc]
				changed := false
				for k := range cur.must {
					if !out.must[k] {
						delete(cur.must, k)
						changed = true
					}
				}
				for k := range out.may {
					if !cur.may[k] {
						cur.may[k] = true
						changed = true
					}
				}
				if changed {
					work = append(work, sc)
				}
			}
		}
		for _, b := range f.Blocks {
			if have[b] {
				report(true, b, in[b])
			}
		}
		var keys []string
		for k := range found {
			keys = append(keys, k)
		}
		sort.Strings(keys)
		for _, k := range keys {
			fd := found[k]
			if strings.HasPrefix(fd.desc, "SignRequest on ") {
				nSign++
			}
			res.check(fd.ok, "C19-R2", fname(f), p.pos(fd.pos), fd.desc, fd.det)
		}
	}
	res.check(nSign >= 2, "C19-R2", "HttpSigTransport", "-", "both signers' uses were examined", fmt.Sprintf("%d SignRequest sites", nSign))
	// one mutex per signer in the constructor
	if f := p.Func("NewHttpSigTransport"); f != nil {
		allocs := map[string]ssa.Value{}
		for _, b := range f.Blocks {
			for _, ins := range b.Instrs {
				if st, ok := ins.(*ssa.Store); ok {
					if fa, ok := st.Addr.(*ssa.FieldAddr); ok {
						n := fieldName(fa.X.Type(), fa.Field)
						if n == "getSignerMu" || n == "postSignerMu" {
							allocs[n] = st.Val
						}
					}
				}
			}
		}
		_, isA1 := allocs["getSignerMu"].(*ssa.Alloc)
		_, isA2 := allocs["postSignerMu"].(*ssa.Alloc)
		res.check(isA1 && isA2 && allocs["getSignerMu"] != allocs["postSignerMu"], "C19-R2", fname(f), p.pos(f), "each signer gets a mutex of its own, allocated by the constructor", "mutexes missing or shared")
	}
}

// checkDrainTotal: every receive from the error channel of BatchDeliver lies in
// a loop that is left only when the channel is known empty: through the default
// case of a non-blocking select that has the receive case, through the !ok of a
// receive on the closed channel, or on len(ch) == 0. A counting loop can stop
// with failures still buffered (the error then names only some of them).
func checkDrainTotal(res *Result, p *Pub, fn *ssa.Function, wait ssa.Instruction) {
	var ch ssa.Value
	for _, b := range fn.Blocks {
		for _, ins := range b.Instrs {
			if mk, ok := ins.(*ssa.MakeChan); ok {
				ch = mk
			}
		}
	}
	if ch == nil {
		res.bad("C19-R4", fname(fn), p.pos(fn), "BatchDeliver collects failures through a channel", "no channel made")
		return
	}
	// the channel variable may live in a cell (it is captured by the goroutines)
	var cell *ssa.Alloc
	for _, ref := range *ch.Referrers() {
		if st, ok := ref.(*ssa.Store); ok && st.Val == ch {
			cell, _ = st.Addr.(*ssa.Alloc)
		}
	}
	isCh := func(v ssa.Value) bool {
		v = unwrap(v)
		if v == ch {
			return true
		}
		if ld, ok := v.(*ssa.UnOp); ok && ld.Op == token.MUL && cell != nil && ld.X == ssa.Value(cell) {
			return true
		}
		return false
	}
	type recv struct {
		ins ssa.Instruction
		sel *ssa.Select
		arr *ssa.UnOp
	}
	var recvs []recv
	for _, b := range fn.Blocks {
		for _, ins := range b.Instrs {
			switch x := ins.(type) {
			case *ssa.Select:
				for _, st := range x.States {
					if st.Dir == types.RecvOnly && isCh(st.Chan) {
						recvs = append(recvs, recv{ins: x, sel: x})
					}
				}
			case *ssa.UnOp:
				if x.Op == token.ARROW && isCh(x.X) {
					recvs = append(recvs, recv{ins: x, arr: x})
				}
			}
		}
	}
	res.check(len(recvs) >= 1, "C19-R4", fname(fn), p.pos(fn), "the failures sent by the goroutines are received", "no receive from the error channel in BatchDeliver")
	for _, rc := range recvs {
		loop := loopBlocks(rc.ins.Block())
		if len(loop) == 0 {
			res.bad("C19-R4", fname(fn), p.pos(rc.ins), "failures are received in a loop", "a single receive: at most one failure is collected")
			continue
		}
		okAll := true
		why := ""
		for b := range loop {
			for si, s := range b.Succs {
				if loop[s] {
					continue
				}
				// exit edge b -> s
				iff, isIf := lastIf(b)
				if !isIf {
					okAll, why = false, fmt.Sprintf("the loop is left from block %d unconditionally", b.Index)
					continue
				}
				onTrue := si == 0
				accepted := false
				switch c := iff.Cond.(type) {
				case *ssa.BinOp:
					// select index test
					if ex, ok := c.X.(*ssa.Extract); ok {
						if sel, ok := ex.Tuple.(*ssa.Select); ok && ex.Index == 0 && !sel.Blocking {
							for _, st := range sel.States {
								if st.Dir == types.RecvOnly && isCh(st.Chan) {
									accepted = true
								}
							}
						}
					}
					// len(ch) against 0
					lenOf := func(v ssa.Value) bool {
						cl, ok := v.(*ssa.Call)
						if !ok {
							return false
						}
						bi, ok := cl.Common().Value.(*ssa.Builtin)
						return ok && bi.Name() == "len" && isCh(cl.Common().Args[0])
					}
					zero := func(v ssa.Value) bool { n, ok := intConst(v); return ok && n == 0 }
					if lenOf(c.X) && zero(c.Y) {
						switch c.Op {
						case token.GTR, token.NEQ:
							accepted = !onTrue
						case token.EQL, token.LEQ:
							accepted = onTrue
						}
					}
					if zero(c.X) && lenOf(c.Y) {
						switch c.Op {
						case token.LSS, token.NEQ:
							accepted = !onTrue
						case token.EQL, token.GEQ:
							accepted = onTrue
						}
					}
				case *ssa.Extract:
					// v, ok := <-ch ; exit on !ok (closed and empty)
					if u, ok := c.Tuple.(*ssa.UnOp); ok && u.Op == token.ARROW && u.CommaOk && c.Index == 1 && isCh(u.X) && !onTrue {
						accepted = true
						closed := false
						for _, ci := range callsIn(fn) {
							if bi, ok := ci.Common().Value.(*ssa.Builtin); ok && bi.Name() == "close" && isCh(ci.Common().Args[0]) && dominates(ci, u) && (wait == nil || dominates(wait, ci)) {
								closed = true
							}
						}
						if !closed {
							accepted = false
							why = "the channel is ranged over without being closed after Wait: the receive blocks for ever"
						}
					}
				}
				if !accepted {
					okAll = false
					if why == "" {
						why = fmt.Sprintf("the loop can be left from block %d on a condition that does not say the channel is empty (%s): failures still buffered are dropped from the report", b.Index, valueLabel(iff.Cond))
					}
				}
			}
		}
		res.check(okAll, "C19-R4", fname(fn), p.pos(rc.ins), "the drain stops only when the channel is empty (default case, closed channel, or len == 0)", why)
	}
}
