package main

// C13 — type-hierarchy predicates equal the ontology's closure.
//
// The predicates are table look-ups, so their denotation is computed from the
// source by an abstract evaluator that accepts exactly the forms listed in
// evalPredicate and reports anything else as undecided.

import (
	"fmt"
	"go/ast"
	"go/token"
	"go/types"
	"sort"
	"strings"

	"golang.org/x/tools/go/packages"
)

type predEval struct {
	S    *Streams
	memo map[*ast.FuncDecl]*predResult
}

type predResult struct {
	names   map[string]bool
	problem string // non-empty: undecided
}

// isGetTypeNameOf reports whether e is `<param>.GetTypeName()`.
func isGetTypeNameOf(info *types.Info, e ast.Expr, param types.Object) bool {
	c, ok := e.(*ast.CallExpr)
	if !ok || len(c.Args) != 0 {
		return false
	}
	sel, ok := c.Fun.(*ast.SelectorExpr)
	if !ok || sel.Sel.Name != "GetTypeName" {
		return false
	}
	id, ok := sel.X.(*ast.Ident)
	return ok && info.ObjectOf(id) == param
}

func isReturnBool(s ast.Stmt, want string) bool {
	r, ok := s.(*ast.ReturnStmt)
	if !ok || len(r.Results) != 1 {
		return false
	}
	id, ok := r.Results[0].(*ast.Ident)
	return ok && id.Name == want
}

// evalPredicate computes the set of GetTypeName() strings for which the
// predicate returns true. Accepted statement forms:
//
//	x := []string{"A", ...}
//	for _, v := range x { if v == other.GetTypeName() { return true } }
//	if other.GetTypeName() == "T" { return true }
//	return <otherPredicate>(other)          (resolved through go/types)
//	return false
func (pe *predEval) eval(p *packages.Package, fd *ast.FuncDecl) *predResult {
	if r, ok := pe.memo[fd]; ok {
		if r == nil {
			return &predResult{problem: "recursive predicate"}
		}
		return r
	}
	pe.memo[fd] = nil
	res := &predResult{names: map[string]bool{}}
	defer func() { pe.memo[fd] = res }()
	info := p.TypesInfo
	if fd.Type.Params == nil || len(fd.Type.Params.List) != 1 || len(fd.Type.Params.List[0].Names) != 1 {
		res.problem = "predicate does not take exactly one parameter"
		return res
	}
	param := info.ObjectOf(fd.Type.Params.List[0].Names[0])
	env := map[types.Object][]string{}
	terminated := false
	for _, st := range fd.Body.List {
		if terminated {
			res.problem = "statement after return"
			return res
		}
		switch s := st.(type) {
		case *ast.AssignStmt:
			if len(s.Lhs) != 1 || len(s.Rhs) != 1 || s.Tok != token.DEFINE {
				res.problem = "unrecognised assignment at " + pe.S.pos(s)
				return res
			}
			id, ok := s.Lhs[0].(*ast.Ident)
			cl, ok2 := s.Rhs[0].(*ast.CompositeLit)
			if !ok || !ok2 {
				res.problem = "unrecognised assignment at " + pe.S.pos(s)
				return res
			}
			var list []string
			for _, e := range cl.Elts {
				v, ok := strLit(info, e)
				if !ok {
					res.problem = "non-constant element in name list at " + pe.S.pos(e)
					return res
				}
				list = append(list, v)
			}
			env[info.ObjectOf(id)] = list
		case *ast.RangeStmt:
			xid, ok := s.X.(*ast.Ident)
			list, known := env[info.ObjectOf(xid)]
			vid, ok2 := s.Value.(*ast.Ident)
			if !ok || !known || !ok2 || len(s.Body.List) != 1 {
				res.problem = "unrecognised range at " + pe.S.pos(s)
				return res
			}
			ifs, ok := s.Body.List[0].(*ast.IfStmt)
			if !ok || ifs.Init != nil || ifs.Else != nil || len(ifs.Body.List) != 1 || !isReturnBool(ifs.Body.List[0], "true") {
				res.problem = "unrecognised range body at " + pe.S.pos(s)
				return res
			}
			be, ok := ifs.Cond.(*ast.BinaryExpr)
			if !ok || be.Op != token.EQL {
				res.problem = "unrecognised comparison at " + pe.S.pos(ifs)
				return res
			}
			isV := func(e ast.Expr) bool {
				id, ok := e.(*ast.Ident)
				return ok && info.ObjectOf(id) == info.ObjectOf(vid)
			}
			if !(isV(be.X) && isGetTypeNameOf(info, be.Y, param)) && !(isV(be.Y) && isGetTypeNameOf(info, be.X, param)) {
				res.problem = "range body does not compare the element with other.GetTypeName() at " + pe.S.pos(ifs)
				return res
			}
			for _, n := range list {
				res.names[n] = true
			}
		case *ast.IfStmt:
			if s.Init != nil || s.Else != nil || len(s.Body.List) != 1 || !isReturnBool(s.Body.List[0], "true") {
				res.problem = "unrecognised if at " + pe.S.pos(s)
				return res
			}
			be, ok := s.Cond.(*ast.BinaryExpr)
			if !ok || be.Op != token.EQL {
				res.problem = "unrecognised comparison at " + pe.S.pos(s)
				return res
			}
			var lit string
			if v, ok := strLit(info, be.Y); ok && isGetTypeNameOf(info, be.X, param) {
				lit = v
			} else if v, ok := strLit(info, be.X); ok && isGetTypeNameOf(info, be.Y, param) {
				lit = v
			} else {
				res.problem = "if does not compare other.GetTypeName() with a literal at " + pe.S.pos(s)
				return res
			}
			res.names[lit] = true
		case *ast.ReturnStmt:
			terminated = true
			if isReturnBool(s, "false") {
				continue
			}
			if len(s.Results) == 1 {
				if c, ok := s.Results[0].(*ast.CallExpr); ok && len(c.Args) == 1 {
					aid, ok := c.Args[0].(*ast.Ident)
					callee := calleeFunc(info, c)
					if ok && info.ObjectOf(aid) == param && callee != nil {
						if cd := pe.S.funcDecl[callee]; cd != nil {
							sub := pe.eval(pe.S.declPkg[cd], cd)
							if sub.problem != "" {
								if s2 := pe.evalSSA(pe.S.declPkg[cd], cd, 0); s2.problem == "" {
									sub = s2
								}
							}
							if sub.problem != "" {
								res.problem = "delegates to " + callee.Name() + ": " + sub.problem
								return res
							}
							for n := range sub.names {
								res.names[n] = true
							}
							continue
						}
					}
				}
			}
			res.problem = "unrecognised return at " + pe.S.pos(s)
			return res
		default:
			res.problem = fmt.Sprintf("unrecognised statement %T at %s", st, pe.S.pos(st))
			return res
		}
	}
	if !terminated {
		res.problem = "predicate does not end in a return"
	}
	return res
}

// tailCallee: the function's body is `return F(args...)` passing its own
// parameters through; returns F.
func tailCallee(info *types.Info, fd *ast.FuncDecl) *types.Func {
	if fd == nil || fd.Body == nil || len(fd.Body.List) != 1 {
		return nil
	}
	r, ok := fd.Body.List[0].(*ast.ReturnStmt)
	if !ok || len(r.Results) != 1 {
		return nil
	}
	c, ok := r.Results[0].(*ast.CallExpr)
	if !ok {
		return nil
	}
	var params []types.Object
	if fd.Type.Params != nil {
		for _, f := range fd.Type.Params.List {
			for _, n := range f.Names {
				params = append(params, info.ObjectOf(n))
			}
		}
	}
	if len(c.Args) != len(params) {
		return nil
	}
	for i, a := range c.Args {
		id, ok := a.(*ast.Ident)
		if !ok || info.ObjectOf(id) != params[i] {
			return nil
		}
	}
	return calleeFunc(info, c)
}

const (
	kExtends    = "Extends"
	kExtendedBy = "IsExtendedBy"
	kIsOr       = "IsOrExtends"
	kDisjoint   = "IsDisjointWith"
)

var predKinds = []string{kExtends, kExtendedBy, kIsOr, kDisjoint}

// typePredicates finds the four predicate functions of a type package.
func typePredicates(g *GenType) (map[string]*ast.FuncDecl, []string) {
	out := map[string]*ast.FuncDecl{}
	var problems []string
	for name, fd := range g.Funcs {
		if fd.Recv != nil {
			continue
		}
		var k string
		switch {
		case strings.HasPrefix(name, "IsOrExtends"):
			k = kIsOr
		case strings.HasSuffix(name, "IsExtendedBy"):
			k = kExtendedBy
		case strings.HasSuffix(name, "IsDisjointWith"):
			k = kDisjoint
		case strings.HasSuffix(name, "Extends"):
			k = kExtends
		default:
			continue
		}
		if out[k] != nil {
			problems = append(problems, "two functions of kind "+k)
		}
		out[k] = fd
	}
	for _, k := range predKinds {
		if out[k] == nil {
			problems = append(problems, "no function of kind "+k)
		}
	}
	return out, problems
}

func checkC13(res *Result) {
	O := loadOntology()
	S := loadStreams()
	res.Packages = []string{modPath + "/streams/..."}
	res.Explanation = "The whole statement is decided for the shipped vocabularies: every predicate is a table look-up, so its exact denotation (the set of type names for which it returns true) is computed from the source by an abstract evaluator accepting six statement forms (anything else = undecided = failure) and compared, for all 63×63 ordered pairs and all four predicate families, with the closure computed independently from the four JSON-LD ontologies (own reader, no astool code). Package-level wrappers and IsExtending methods are resolved through go/types to the predicate they delegate to."
	res.Rule("C13-R1", "Extends(A) = proper ancestors of A under the transitive closure of subClassOf")
	res.Rule("C13-R2", "IsExtendedBy(A) = proper descendants of A (converse of Extends)")
	res.Rule("C13-R3", "IsOrExtends(A) = {A} ∪ descendants of A")
	res.Rule("C13-R4", "IsDisjointWith(A) = {B | some ancestor-or-self of A is declared disjoint, in either direction, with some ancestor-or-self of B}")
	res.Rule("C13-R5", "consistency on the extracted relations: extends/extended-by are converses, disjointness is symmetric, no type is disjoint with itself or an ancestor")
	res.Rule("C13-R6", "delegation: each exported streams wrapper and each IsExtending method is a tail call of the predicate of the right type and family; GetTypeName returns the ontology name; names are unique across vocabularies")
	for _, pr := range O.Problems {
		res.bad("C13-R6", "ontology", "-", "ontology is well-formed for name-based predicates", pr)
	}
	res.Count("ontology types", len(O.Types), 60)
	res.Count("generated type packages", len(S.Types), 60)

	pe := &predEval{S: S, memo: map[*ast.FuncDecl]*predResult{}}
	undecidedRel := map[string]bool{}              // kind|A whose denotation could not be read (reported once, not again per pair)
	rel := map[string]map[string]map[string]bool{} // kind -> A -> set
	for _, k := range predKinds {
		rel[k] = map[string]map[string]bool{}
	}
	byName := map[string]*GenType{}
	pairs := 0
	predOfType := map[*types.Func]struct{ typ, kind string }{}
	for _, g := range S.Types {
		fn := g.Pkg.PkgPath[strings.LastIndex(g.Pkg.PkgPath, "/")+1:]
		if g.Name == "" {
			res.undecided("C13-R6", fn, "-", "GetTypeName returns a string literal", "could not extract the type name")
			continue
		}
		ot := O.Types[g.Name]
		if ot == nil {
			res.bad("C13-R6", fn, "-", "type "+g.Name+" exists in the ontology", "generated type has no ontology counterpart")
			continue
		}
		if byName[g.Name] != nil {
			res.bad("C13-R6", fn, "-", "type name "+g.Name+" generated once", "two generated packages return this name")
		}
		byName[g.Name] = g
		preds, problems := typePredicates(g)
		for _, pr := range problems {
			res.undecided("C13-R6", g.Name, "-", "the four predicate functions of "+g.Name+" are identifiable", pr)
		}
		want := map[string]map[string]bool{
			kExtends:    O.Anc(g.Name),
			kExtendedBy: O.Desc(g.Name),
			kDisjoint:   O.DisjointSet(g.Name),
		}
		isor := map[string]bool{g.Name: true}
		for d := range O.Desc(g.Name) {
			isor[d] = true
		}
		want[kIsOr] = isor
		ruleOf := map[string]string{kExtends: "C13-R1", kExtendedBy: "C13-R2", kIsOr: "C13-R3", kDisjoint: "C13-R4"}
		for _, k := range predKinds {
			fd := preds[k]
			if fd == nil {
				continue
			}
			if o, ok := g.Pkg.TypesInfo.Defs[fd.Name].(*types.Func); ok {
				predOfType[o] = struct{ typ, kind string }{g.Name, k}
			}
			r := pe.eval(g.Pkg, fd)
			if r.problem != "" {
				// the statement form is not one of the listed ones: read the denotation off the SSA form
				if r2 := pe.evalSSA(g.Pkg, fd, 0); r2.problem == "" {
					r = r2
				}
			}
			if r.problem != "" {
				res.undecided(ruleOf[k], g.Name, S.pos(fd), k+" of "+g.Name+" has a computable denotation", r.problem)
				undecidedRel[k+"|"+g.Name] = true
				continue
			}
			rel[k][g.Name] = r.names
			pairs += len(O.Types)
			missing, extra := setDiff(want[k], r.names)
			res.Add(Oblig{Rule: ruleOf[k], Func: g.Name, Pos: S.pos(fd), Key: ruleOf[k] + "|" + g.Name + "|" + k,
				Desc:    fmt.Sprintf("%s(%s, B) agrees with the ontology closure for all %d types B (true for %d)", k, g.Name, len(O.Types), len(want[k])),
				Verdict: map[bool]string{true: OK, false: VIOLATION}[len(missing) == 0 && len(extra) == 0],
				Detail:  map[bool]string{true: "", false: fmt.Sprintf("true in the ontology but false in code for B ∈ %v; true in code but not in the ontology for B ∈ %v", missing, extra)}[len(missing) == 0 && len(extra) == 0]})
		}
		// IsExtending method
		if g.Struct != nil {
			mname := "(" + g.Struct.Obj().Name() + ").IsExtending"
			if fd := g.Funcs[mname]; fd != nil {
				callee := tailCallee(g.Pkg.TypesInfo, fd)
				tk, ok := predOfType[callee]
				res.check(ok && tk.typ == g.Name && tk.kind == kExtends, "C13-R6", g.Name, S.pos(fd), "IsExtending of "+g.Name+" delegates to its Extends predicate", fmt.Sprintf("delegates to %v", callee))
			} else {
				res.bad("C13-R6", g.Name, "-", "IsExtending method of "+g.Name+" exists", "not found")
			}
		}
	}
	for _, n := range O.TypeNames() {
		if byName[n] == nil {
			res.bad("C13-R6", n, "-", "ontology type "+n+" has generated code", "no type package returns this name")
		}
	}
	// wrappers in package streams
	wrappers := 0
	seenWrap := map[string]bool{}
	for name, fd := range declaredFuncs(S.Root) {
		file := S.Fset.Position(fd.Pos()).Filename
		base := file[strings.LastIndex(file, "/")+1:]
		if !strings.HasPrefix(base, "gen_pkg_") {
			continue
		}
		var kind string
		switch {
		case strings.HasSuffix(base, "_extends.go"):
			kind = kExtends
		case strings.HasSuffix(base, "_extendedby.go"):
			kind = kExtendedBy
		case strings.HasSuffix(base, "_isorextends.go"):
			kind = kIsOr
		case strings.HasSuffix(base, "_disjoint.go"):
			kind = kDisjoint
		default:
			continue
		}
		wrappers++
		callee := tailCallee(S.Root.TypesInfo, fd)
		tk, ok := predOfType[callee]
		if !ok {
			res.bad("C13-R6", name, S.pos(fd), "wrapper "+name+" is a tail call of a type predicate", fmt.Sprintf("callee %v is not a recognised predicate", callee))
			continue
		}
		ot := O.Types[tk.typ]
		var wantName string
		switch kind {
		case kExtends:
			wantName = ot.Vocab.Name + ot.Vocab.Name + tk.typ + "Extends"
		case kExtendedBy:
			wantName = ot.Vocab.Name + tk.typ + "IsExtendedBy"
		case kDisjoint:
			wantName = ot.Vocab.Name + tk.typ + "IsDisjointWith"
		case kIsOr:
			wantName = "IsOrExtends" + ot.Vocab.Name + tk.typ
		}
		seenWrap[tk.typ+"/"+kind] = true
		res.check(tk.kind == kind && name == wantName, "C13-R6", name, S.pos(fd), "wrapper "+name+" delegates to the "+kind+" predicate of the type it names",
			fmt.Sprintf("delegates to %s of %s; the exported name for that is %s", tk.kind, tk.typ, wantName))
	}
	for _, n := range O.TypeNames() {
		for _, k := range predKinds {
			if !seenWrap[n+"/"+k] {
				res.bad("C13-R6", n, "-", "exported wrapper for "+k+" of "+n+" exists", "no wrapper delegates to it")
			}
		}
	}
	res.Count("exported predicate wrappers", wrappers, 240)
	res.Count("ordered pairs evaluated (4 families)", pairs, 4*60*60)

	// R5 consistency on the extracted relations
	names := O.TypeNames()
	for _, a := range names {
		var bad []string
		und := func(k, t string) bool { return undecidedRel[k+"|"+t] }
		for _, b := range names {
			// a relation whose denotation could not be read is reported where it was read, not
			// once more for every pair it takes part in
			if und(kExtends, a) || und(kExtendedBy, a) || und(kDisjoint, a) || und(kIsOr, a) || und(kExtendedBy, b) || und(kDisjoint, b) {
				continue
			}
			if rel[kExtends][a][b] != rel[kExtendedBy][b][a] {
				bad = append(bad, fmt.Sprintf("Extends(%s,%s)=%v but ExtendedBy(%s,%s)=%v", a, b, rel[kExtends][a][b], b, a, rel[kExtendedBy][b][a]))
			}
			if rel[kDisjoint][a][b] != rel[kDisjoint][b][a] {
				bad = append(bad, fmt.Sprintf("Disjoint(%s,%s)=%v but Disjoint(%s,%s)=%v", a, b, rel[kDisjoint][a][b], b, a, rel[kDisjoint][b][a]))
			}
			if rel[kDisjoint][a][b] && (a == b || rel[kExtends][a][b]) {
				bad = append(bad, fmt.Sprintf("%s is disjoint with itself/ancestor %s", a, b))
			}
			if rel[kIsOr][a][b] != (a == b || rel[kExtendedBy][a][b]) {
				bad = append(bad, fmt.Sprintf("IsOrExtends(%s,%s) inconsistent with ExtendedBy", a, b))
			}
		}
		sort.Strings(bad)
		res.Add(Oblig{Rule: "C13-R5", Func: a, Pos: "-", Key: "C13-R5|" + a, Desc: "converse / symmetry / irreflexivity hold for every pair involving " + a,
			Verdict: map[bool]string{true: OK, false: VIOLATION}[len(bad) == 0], Detail: strings.Join(bad, "; ")})
	}
	res.Functions = len(S.Types) * 4
	res.Assumptions = append(res.Assumptions,
		"GetTypeName() of a value returns the literal extracted from its type's method (checked: every type's literal equals the ontology name)",
		"the ontology reader's interpretation of subClassOf / disjointWith (names, optionally prefixed by a vocabulary alias)")
	res.Trusted = []string{"go/parser, go/types", "the checker's JSON-LD reader and closure code (ontology.go)", "the abstract evaluator's six accepted statement forms (c13.go)"}
	res.Undecided = []string{"vocabularies other than the four shipped ones (the generator itself is not analysed)"}
}
