package main

// AST-side helpers: enumeration of function units (declared functions and
// function literals, each analysed as its own unit), canonical expression
// keys, and resolution of calls to their declarations.

import (
	"fmt"
	"go/ast"
	"go/printer"
	"go/token"
	"go/types"
	"strings"
)

// Unit is a function declaration or a function literal.
type Unit struct {
	Name   string // same naming scheme as fname() for SSA functions
	Body   *ast.BlockStmt
	Type   *ast.FuncType
	Decl   *ast.FuncDecl // enclosing declaration
	Lit    *ast.FuncLit  // nil for a declared function
	Parent *Unit
	Obj    *types.Func // for declared functions
}

// unitsOf lists every unit of the non-test files of a package, in source order.
func unitsOf(fset *token.FileSet, files []*ast.File, info *types.Info) []*Unit {
	var out []*Unit
	for _, f := range files {
		if isTestFile(fset, f.Pos()) {
			continue
		}
		for _, d := range f.Decls {
			fd, ok := d.(*ast.FuncDecl)
			if !ok || fd.Body == nil {
				continue
			}
			name := fd.Name.Name
			if fd.Recv != nil && len(fd.Recv.List) > 0 {
				t := fd.Recv.List[0].Type
				if s, ok := t.(*ast.StarExpr); ok {
					t = s.X
				}
				name = types.ExprString(t) + "." + name
			}
			if expandedAway[name] {
				continue // analysed inside its callers (inline.go)
			}
			obj, _ := info.Defs[fd.Name].(*types.Func)
			u := &Unit{Name: name, Body: fd.Body, Type: fd.Type, Decl: fd, Obj: obj}
			out = append(out, u)
			out = append(out, litUnits(u)...)
		}
	}
	return out
}

func litUnits(parent *Unit) []*Unit {
	var out []*Unit
	i := 0
	var walk func(n ast.Node) bool
	walk = func(n ast.Node) bool {
		if fl, ok := n.(*ast.FuncLit); ok {
			i++
			u := &Unit{Name: fmt.Sprintf("%s$%d", parent.Name, i), Body: fl.Body, Type: fl.Type, Decl: parent.Decl, Lit: fl, Parent: parent}
			out = append(out, u)
			out = append(out, litUnits(u)...)
			return false
		}
		return true
	}
	ast.Inspect(parent.Body, walk)
	return out
}

// inspectShallow walks n without descending into function literals.
func inspectShallow(n ast.Node, f func(ast.Node) bool) {
	ast.Inspect(n, func(m ast.Node) bool {
		if _, ok := m.(*ast.FuncLit); ok && m != n {
			return false
		}
		return f(m)
	})
}

// canon renders an expression with every identifier replaced by its resolved
// object, so that two occurrences denote the same key iff they are the same
// expression over the same variables (shadowing respected).
func canon(info *types.Info, e ast.Expr) string {
	switch x := e.(type) {
	case *ast.Ident:
		if o := info.ObjectOf(x); o != nil && o.Pos().IsValid() {
			return fmt.Sprintf("%s@%d", x.Name, o.Pos())
		}
		return x.Name
	case *ast.SelectorExpr:
		return canon(info, x.X) + "." + x.Sel.Name
	case *ast.CallExpr:
		var as []string
		for _, a := range x.Args {
			as = append(as, canon(info, a))
		}
		return canon(info, x.Fun) + "(" + strings.Join(as, ",") + ")"
	case *ast.ParenExpr:
		return canon(info, x.X)
	case *ast.StarExpr:
		return "*" + canon(info, x.X)
	case *ast.UnaryExpr:
		return x.Op.String() + canon(info, x.X)
	case *ast.IndexExpr:
		return canon(info, x.X) + "[" + canon(info, x.Index) + "]"
	case *ast.BasicLit:
		return x.Value
	}
	return fmt.Sprintf("?%T", e)
}

// pretty strips the @pos object tags from a canonical key for display and for
// stable obligation keys.
func pretty(k string) string {
	if strings.HasSuffix(k, "~prev") {
		return pretty(strings.TrimSuffix(k, "~prev")) + "(earlier iteration)"
	}
	var b strings.Builder
	skip := false
	for _, r := range k {
		if r == '@' {
			skip = true
			continue
		}
		if skip && r >= '0' && r <= '9' {
			continue
		}
		skip = false
		b.WriteRune(r)
	}
	return b.String()
}

// identsIn lists the objects of all identifiers in e.
func identsIn(info *types.Info, e ast.Node) []types.Object {
	var out []types.Object
	ast.Inspect(e, func(n ast.Node) bool {
		if id, ok := n.(*ast.Ident); ok {
			if o := info.ObjectOf(id); o != nil {
				out = append(out, o)
			}
		}
		return true
	})
	return out
}

// ifaceMethod returns (interface type name, method name) if call is a method
// call whose receiver's static type is a named interface of package pkgPath.
func ifaceMethod(info *types.Info, call *ast.CallExpr) (iface *types.Named, method string) {
	sel, ok := call.Fun.(*ast.SelectorExpr)
	if !ok {
		return nil, ""
	}
	s := info.Selections[sel]
	if s == nil || s.Kind() != types.MethodVal {
		return nil, ""
	}
	n := namedOf(s.Recv())
	if n == nil {
		return nil, ""
	}
	if _, ok := n.Underlying().(*types.Interface); !ok {
		return nil, ""
	}
	return n, sel.Sel.Name
}

// staticCallee resolves a call to the *types.Func it statically names
// (package function or concrete method), or nil.
func staticCallee(info *types.Info, call *ast.CallExpr) *types.Func {
	var id *ast.Ident
	switch f := call.Fun.(type) {
	case *ast.Ident:
		id = f
	case *ast.SelectorExpr:
		id = f.Sel
		if s := info.Selections[f]; s != nil {
			if s.Kind() != types.MethodVal {
				return nil
			}
			if n := namedOf(s.Recv()); n != nil {
				if _, isIface := n.Underlying().(*types.Interface); isIface {
					return nil
				}
			}
		}
	case *ast.ParenExpr:
		return nil
	}
	if id == nil {
		return nil
	}
	fn, _ := info.Uses[id].(*types.Func)
	return fn
}

// exprText renders an expression as source text (go/printer), literals included.
func exprText(e ast.Expr) string {
	var b strings.Builder
	printer.Fprint(&b, token.NewFileSet(), e)
	return b.String()
}
