package main

import (
	"fmt"
	"go/ast"
	"go/token"
	"go/types"
	"sort"
	"strings"
)

// GetType / SetType of a property element are dispatch tables over the element's type-valued
// kinds: GetType returns Get<X>() exactly where Is<X>() holds, for every such kind; SetType hands
// a value to Set<X> exactly where it implements the vocabulary interface of kind X. package pub
// reads embedded values only through GetType (ToId, the strip functions, the forwarding search):
// a kind missing from — or crossed in — the table makes values of that one type invisible.

// typeKindsOf: X -> member, for every Is<X> of the element that tests a type-valued member.
func typeKindsOf(pm *PropModel) map[string]*Member {
	info := pm.G.Pkg.TypesInfo
	en := elemStructName(pm)
	out := map[string]*Member{}
	for name, fd := range pm.G.Funcs {
		if !strings.HasPrefix(name, "("+en+").Is") || fd.Body == nil || len(fd.Body.List) != 1 {
			continue
		}
		r, ok := fd.Body.List[0].(*ast.ReturnStmt)
		if !ok || len(r.Results) != 1 {
			continue
		}
		be, ok := r.Results[0].(*ast.BinaryExpr)
		if !ok || be.Op != token.NEQ || !isIdentNamed(be.Y, "nil") {
			continue
		}
		fv := thisField(info, be.X)
		if fv == nil {
			continue
		}
		if m := pm.memberByField[fv]; m != nil && m.Kind == "type" {
			out[strings.TrimPrefix(name, "("+en+").Is")] = m
		}
	}
	return out
}

func checkTypeAccessorTables(res *Result, rule string, only map[string]bool) {
	M := loadGenModel()
	S := M.S
	nGet, nSet := 0, 0
	for _, pm := range M.Props {
		if len(pm.Problems) > 0 || (only != nil && !only[pm.Name]) {
			continue
		}
		kinds := typeKindsOf(pm)
		if len(kinds) == 0 {
			continue
		}
		info := pm.G.Pkg.TypesInfo
		en := elemStructName(pm)
		// ---- GetType
		if fd := pm.G.Funcs["("+en+").GetType"]; fd != nil {
			nGet++
			seen := map[string]bool{}
			var bad []string
			row := func(cond ast.Expr, body []ast.Stmt) {
				isX := ""
				ast.Inspect(cond, func(m ast.Node) bool {
					if c, ok := m.(*ast.CallExpr); ok {
						if sel, ok := c.Fun.(*ast.SelectorExpr); ok && isIdentNamed(sel.X, "this") && strings.HasPrefix(sel.Sel.Name, "Is") {
							isX = strings.TrimPrefix(sel.Sel.Name, "Is")
						}
					}
					return true
				})
				if isX == "" {
					return
				}
				getX := ""
				for _, st := range body {
					if r, ok := st.(*ast.ReturnStmt); ok && len(r.Results) == 1 {
						if c, ok := r.Results[0].(*ast.CallExpr); ok {
							if sel, ok := c.Fun.(*ast.SelectorExpr); ok && isIdentNamed(sel.X, "this") && strings.HasPrefix(sel.Sel.Name, "Get") {
								getX = strings.TrimPrefix(sel.Sel.Name, "Get")
							}
						}
					}
				}
				if kinds[isX] == nil {
					return // a test of another kind (IRI, literal): not a table row
				}
				seen[isX] = true
				if getX == "" && len(pm.Members) == 1 {
					getX = isX // single-kind property: plain Get()
				}
				if getX != isX {
					bad = append(bad, fmt.Sprintf("where Is%s holds Get%s is returned", isX, getX))
				}
			}
			ast.Inspect(fd.Body, func(n ast.Node) bool {
				switch x := n.(type) {
				case *ast.IfStmt:
					row(x.Cond, x.Body.List)
				case *ast.SwitchStmt:
					if x.Tag == nil {
						for _, cl := range x.Body.List {
							if cc, ok := cl.(*ast.CaseClause); ok {
								for _, e := range cc.List {
									row(e, cc.Body)
								}
							}
						}
					}
				}
				return true
			})
			for x := range kinds {
				if !seen[x] {
					bad = append(bad, "no row for "+x)
				}
			}
			sort.Strings(bad)
			res.check(len(bad) == 0, rule, pm.G.Dir, S.pos(fd), fmt.Sprintf("GetType returns Get<X>() exactly where Is<X>() holds, for each of the %d type-valued kinds", len(kinds)), strings.Join(bad, "; ")+" — an embedded value of that type is invisible to everything that reads the property through GetType (ToId, the strip functions, the forwarding search)")
		} else {
			res.bad(rule, pm.G.Dir, "-", "GetType exists", "missing")
		}
		// ---- SetType
		if fd := pm.G.Funcs["("+en+").SetType"]; fd != nil {
			nSet++
			seen := map[string]bool{}
			var bad []string
			type setRow struct {
				typ  ast.Expr
				body ast.Node
			}
			var rows []setRow
			ast.Inspect(fd.Body, func(n ast.Node) bool {
				switch x := n.(type) {
				case *ast.IfStmt:
					if x.Init != nil {
						if as, ok := x.Init.(*ast.AssignStmt); ok && len(as.Rhs) == 1 {
							if ta, ok := as.Rhs[0].(*ast.TypeAssertExpr); ok && ta.Type != nil {
								rows = append(rows, setRow{ta.Type, x.Body})
							}
						}
					}
				case *ast.TypeSwitchStmt:
					for _, cl := range x.Body.List {
						if cc, ok := cl.(*ast.CaseClause); ok {
							for _, e := range cc.List {
								rows = append(rows, setRow{e, &ast.BlockStmt{List: cc.Body}})
							}
						}
					}
				}
				return true
			})
			for _, rw := range rows {
				ta := struct{ Type ast.Expr }{rw.typ}
				ifs := struct{ Body ast.Node }{rw.body}
				iface := namedOf(info.TypeOf(ta.Type))
				setX := ""
				ast.Inspect(ifs.Body, func(m ast.Node) bool {
					if c, ok := m.(*ast.CallExpr); ok {
						if sel, ok := c.Fun.(*ast.SelectorExpr); ok && isIdentNamed(sel.X, "this") && strings.HasPrefix(sel.Sel.Name, "Set") {
							setX = strings.TrimPrefix(sel.Sel.Name, "Set")
						}
					}
					return true
				})
				if setX == "" && len(pm.Members) == 1 {
					for x := range kinds {
						setX = x // single-kind property: plain Set(v)
					}
				}
				m := kinds[setX]
				if m == nil {
					bad = append(bad, "a value asserted as "+types.ExprString(ta.Type)+" is handed to Set"+setX+", which stores no type-valued kind")
					continue
				}
				seen[setX] = true
				if iface == nil || m.Iface != iface {
					bad = append(bad, "a value asserted as "+types.ExprString(ta.Type)+" is handed to Set"+setX)
				}
			}
			for x := range kinds {
				if !seen[x] {
					bad = append(bad, "no row for "+x)
				}
			}
			sort.Strings(bad)
			res.check(len(bad) == 0, rule, pm.G.Dir, S.pos(fd), fmt.Sprintf("SetType hands a value to Set<X> exactly where it implements the interface of kind X, for each of the %d type-valued kinds", len(kinds)), strings.Join(bad, "; "))
		}
	}
	min := 40
	if only != nil {
		min = len(only)
	}
	res.Count(rule+" GetType tables", nGet, min)
	_ = nSet
}
