package main

// E1 — effect resolution for package pub.
//
// Every call instruction of every pub function is classified into effect
// classes; pub functions get a transitive summary (union over their calls).
// Calls are resolved by the rules of DESIGN.md §2: static callees are
// followed, invokes on application interfaces are sinks, invokes on
// DelegateActor resolve to *sideEffectActor (and count as application code),
// func-typed struct fields resolve to the methods stored into them inside pub
// (else they are application callbacks), resolver dispatch is the union of all
// wrapped callbacks plus application callbacks, and code outside pub is
// effect-free (premise checked: nothing effectful is passed out of pub).

import (
	"fmt"
	"go/token"
	"go/types"
	"sort"
	"strings"

	"golang.org/x/tools/go/ssa"
)

type Eff uint32

const (
	eDBW     Eff = 1 << iota // Database Create/Update/Delete/SetInbox/SetOutbox
	eDBR                     // other Database reads
	eDBLOCK                  // Database Lock/Unlock
	eDBNEWID                 // Database NewID
	eTP                      // Transport methods, NewTransport
	eCB                      // application side-effect callbacks
	eAPPREAD                 // application GetInbox/GetOutbox, config getters
	eGATE                    // Authenticate*, AuthorizePostInbox, Blocked
	eHOOK                    // Post*RequestBodyHook
	eCLK                     // Clock.Now
	eRW                      // ResponseWriter.WriteHeader / Write
	eRWH                     // ResponseWriter.Header
	eHTTP                    // HttpClient.Do
	eUNKNOWN                 // unresolved dynamic call
)

var effNames = []string{"DBW", "DBR", "DBLOCK", "DBNEWID", "TP", "CB", "APPREAD", "GATE", "HOOK", "CLK", "RW", "RWH", "HTTP", "UNKNOWN"}

func (e Eff) String() string {
	if e == 0 {
		return "none"
	}
	var out []string
	for i, n := range effNames {
		if e&(1<<uint(i)) != 0 {
			out = append(out, n)
		}
	}
	return strings.Join(out, "+")
}

const eDB = eDBW | eDBR | eDBLOCK | eDBNEWID
const eSIDE = eDB | eTP | eCB | eAPPREAD | eHTTP // what must wait for the gates

// CallInfo describes one call instruction.
type CallInfo struct {
	Instr   ssa.CallInstruction
	Fn      *ssa.Function
	Direct  Eff    // effect of the call itself when it is a sink
	Trans   Eff    // Direct plus the summaries of resolved callees
	Label   string // e.g. "Database.Create", "delegate.PostInbox", "callback field Create"
	Callees []*ssa.Function
}

type Effects struct {
	p        *Pub
	calls    map[ssa.CallInstruction]*CallInfo
	byFn     map[*ssa.Function][]*CallInfo
	summary  map[*ssa.Function]Eff
	fieldFns map[*types.Var][]*ssa.Function // func-typed fields -> methods stored in them inside pub
	fieldSet map[*types.Var]bool
	unknown  []string
	premise  []string // violations of the "nothing effectful leaves pub" premise
	wrapped  []*ssa.Function
	paramArg map[*ssa.Parameter][]ssa.Value
}

var effCache *Effects

func isPubNamed(t types.Type, name string) bool {
	return typeIs(t, modPath+"/pub", name)
}

func pubIfaceName(t types.Type) string {
	n := namedOf(t)
	if n == nil || n.Obj().Pkg() == nil || n.Obj().Pkg().Path() != modPath+"/pub" {
		return ""
	}
	if _, ok := n.Underlying().(*types.Interface); !ok {
		return ""
	}
	return n.Obj().Name()
}

func classifyIfaceCall(iface, m string) (Eff, bool) {
	switch iface {
	case "Database":
		switch m {
		case "Lock", "Unlock":
			return eDBLOCK, true
		case "NewID":
			return eDBNEWID, true
		}
		if dbWrites[m] {
			return eDBW, true
		}
		return eDBR, true
	case "Transport":
		return eTP, true
	case "HttpClient":
		return eHTTP, true
	case "Clock":
		return eCLK, true
	case "CommonBehavior", "FederatingProtocol", "SocialProtocol":
		switch {
		case strings.HasPrefix(m, "Authenticate"), m == "AuthorizePostInbox", m == "Blocked":
			return eGATE, true
		case strings.HasSuffix(m, "RequestBodyHook"):
			return eHOOK, true
		case m == "NewTransport":
			return eTP, true
		case m == "FederatingCallbacks", m == "SocialCallbacks", m == "DefaultCallback", m == "FilterForwarding":
			return eCB, true
		case m == "GetInbox", m == "GetOutbox", m == "MaxInboxForwardingRecursionDepth", m == "MaxDeliveryRecursionDepth":
			return eAPPREAD, true
		}
		return eUNKNOWN, true
	}
	return 0, false
}

func isResponseWriter(t types.Type) bool { return typeIs(t, "net/http", "ResponseWriter") }

func computeEffects(p *Pub) *Effects {
	if effCache != nil {
		return effCache
	}
	computeGlobalsAssigned(p)
	E := &Effects{p: p, calls: map[ssa.CallInstruction]*CallInfo{}, byFn: map[*ssa.Function][]*CallInfo{}, summary: map[*ssa.Function]Eff{},
		fieldFns: map[*types.Var][]*ssa.Function{}, fieldSet: map[*types.Var]bool{}, paramArg: map[*ssa.Parameter][]ssa.Value{}}
	inPub := map[*ssa.Function]bool{}
	for _, f := range p.Funcs {
		inPub[f] = true
	}
	// stores into func-typed fields
	fieldOf := func(fa *ssa.FieldAddr) *types.Var {
		t := fa.X.Type().Underlying().(*types.Pointer).Elem().Underlying().(*types.Struct)
		return t.Field(fa.Field)
	}
	funcOfValue := func(v ssa.Value) *ssa.Function {
		switch x := v.(type) {
		case *ssa.Function:
			return x
		case *ssa.MakeClosure:
			fn := x.Fn.(*ssa.Function)
			if strings.HasSuffix(fn.Name(), "$bound") {
				if obj, ok := fn.Object().(*types.Func); ok {
					return p.Prog.FuncValue(obj)
				}
			}
			return fn
		}
		return nil
	}
	for _, f := range p.Funcs {
		for _, b := range f.Blocks {
			for _, ins := range b.Instrs {
				st, ok := ins.(*ssa.Store)
				if !ok {
					continue
				}
				fa, ok := st.Addr.(*ssa.FieldAddr)
				if !ok {
					continue
				}
				fv := fieldOf(fa)
				if _, isFunc := fv.Type().Underlying().(*types.Signature); !isFunc {
					continue
				}
				E.fieldSet[fv] = true
				if fn := funcOfValue(st.Val); fn != nil {
					E.fieldFns[fv] = append(E.fieldFns[fv], fn)
				} else if ld, ok := st.Val.(*ssa.UnOp); ok {
					// copied from another func-typed field or value: keep as unknown source
					_ = ld
					E.fieldFns[fv] = append(E.fieldFns[fv], nil)
				} else {
					E.fieldFns[fv] = append(E.fieldFns[fv], nil)
				}
			}
		}
	}
	// arguments bound to func-typed parameters by in-package static calls
	for _, f := range p.Funcs {
		for _, b := range f.Blocks {
			for _, ins := range b.Instrs {
				ci, ok := ins.(ssa.CallInstruction)
				if !ok {
					continue
				}
				callee := ci.Common().StaticCallee()
				if callee == nil || !inPub[callee] {
					continue
				}
				args := ci.Common().Args
				for i, prm := range callee.Params {
					if i < len(args) {
						if _, isFunc := prm.Type().Underlying().(*types.Signature); isFunc {
							E.paramArg[prm] = append(E.paramArg[prm], args[i])
						}
					}
				}
			}
		}
	}
	// wrapped callback methods: methods of the two WrappedCallbacks structs with signature func(ctx, vocab.X) error
	for _, f := range p.Funcs {
		if f.Signature.Recv() == nil || f.Parent() != nil {
			continue
		}
		rn := namedOf(f.Signature.Recv().Type())
		if rn == nil || (rn.Obj().Name() != "FederatingWrappedCallbacks" && rn.Obj().Name() != "SocialWrappedCallbacks") {
			continue
		}
		if isActivityCallbackSig(f.Signature) && registeredInCallbacks(p, rn.Obj().Name(), f) {
			E.wrapped = append(E.wrapped, f)
		}
	}
	sea := p.Named("sideEffectActor")

	var classifyValue func(v ssa.Value, depth int) (Eff, []*ssa.Function, string)
	classifyValue = func(v ssa.Value, depth int) (Eff, []*ssa.Function, string) {
		if depth > 4 {
			return eUNKNOWN, nil, "dynamic call (resolution too deep)"
		}
		if fn := funcOfValue(v); fn != nil {
			return 0, []*ssa.Function{fn}, "closure " + fname(fn)
		}
		switch x := v.(type) {
		case *ssa.UnOp: // load of a field address
			if fa, ok := x.X.(*ssa.FieldAddr); ok && x.Op == token.MUL {
				return classifyField(E, fieldOf(fa))
			}
		case *ssa.Field:
			st := x.X.Type().Underlying().(*types.Struct)
			return classifyField(E, st.Field(x.Field))
		case *ssa.Parameter:
			args := E.paramArg[x]
			if len(args) == 0 {
				return classifyBySig(x.Type())
			}
			var eff Eff
			var fns []*ssa.Function
			var labels []string
			for _, a := range args {
				e, fs, l := classifyValue(a, depth+1)
				eff |= e
				fns = append(fns, fs...)
				labels = append(labels, l)
			}
			return eff, fns, "func parameter " + x.Name() + " <- {" + strings.Join(labels, ", ") + "}"
		case *ssa.Phi:
			var eff Eff
			var fns []*ssa.Function
			for _, e := range x.Edges {
				if c, ok := e.(*ssa.Const); ok && c.IsNil() {
					continue
				}
				ee, fs, _ := classifyValue(e, depth+1)
				eff |= ee
				fns = append(fns, fs...)
			}
			return eff, fns, "phi of funcs"
		}
		return classifyBySig(v.Type())
	}

	// pass 1: direct classification
	for _, f := range p.Funcs {
		for _, b := range f.Blocks {
			for _, ins := range b.Instrs {
				ci, ok := ins.(ssa.CallInstruction)
				if !ok {
					continue
				}
				cc := ci.Common()
				info := &CallInfo{Instr: ci, Fn: f}
				switch {
				case cc.IsInvoke():
					recvT := cc.Value.Type()
					m := cc.Method.Name()
					if in := pubIfaceName(recvT); in != "" {
						if in == "DelegateActor" {
							ms := p.Prog.MethodSets.MethodSet(types.NewPointer(sea))
							if sel := ms.Lookup(p.Pkg.Types, m); sel != nil {
								info.Callees = append(info.Callees, p.Prog.MethodValue(sel))
							}
							info.Label = "delegate." + m
							// a custom DelegateActor is application code of the same role
							switch {
							case strings.HasPrefix(m, "Authenticate"), m == "AuthorizePostInbox":
								info.Direct = eGATE
							case strings.HasSuffix(m, "RequestBodyHook"):
								info.Direct = eHOOK
							default:
								info.Direct = eCB
							}
						} else if e, ok := classifyIfaceCall(in, m); ok {
							info.Direct = e
							info.Label = in + "." + m
							if e == eUNKNOWN {
								E.unknown = append(E.unknown, fmt.Sprintf("%s: method %s.%s has no effect class", p.pos(ins), in, m))
							}
						} else {
							info.Label = in + "." + m // vocab-like interfaces declared in pub (Activity, getters)
						}
					} else if isResponseWriter(recvT) {
						if m == "Header" {
							info.Direct = eRWH
						} else {
							info.Direct = eRW
						}
						info.Label = "ResponseWriter." + m
					} else {
						info.Label = "iface " + types.TypeString(recvT, shortQual) + "." + m
					}
				case cc.StaticCallee() != nil:
					callee := cc.StaticCallee()
					if inPub[callee] {
						info.Callees = []*ssa.Function{callee}
						info.Label = fname(callee)
					} else if strings.HasSuffix(callee.Name(), "$bound") || callee.Synthetic != "" && callee.Pkg == p.SSA {
						if obj, ok := callee.Object().(*types.Func); ok {
							if t := p.Prog.FuncValue(obj); t != nil && inPub[t] {
								info.Callees = []*ssa.Function{t}
							}
						}
						info.Label = callee.Name()
					} else {
						info.Label = callee.String()
						if isResolverDispatch(callee) {
							info.Direct = eCB
							info.Callees = append(info.Callees, E.wrapped...)
							info.Label = "resolver dispatch " + callee.Name()
						} else {
							E.checkPremise(p, f, ci, callee)
						}
					}
				default:
					// dynamic call of a func value
					if _, isBuiltin := cc.Value.(*ssa.Builtin); isBuiltin {
						info.Label = "builtin " + cc.Value.Name()
					} else {
						e, fns, label := classifyValue(cc.Value, 0)
						info.Direct = e
						info.Callees = fns
						info.Label = label
						if e&eUNKNOWN != 0 {
							E.unknown = append(E.unknown, fmt.Sprintf("%s: %s in %s", p.pos(ins), label, fname(f)))
						}
					}
				}
				E.calls[ci] = info
				E.byFn[f] = append(E.byFn[f], info)
			}
		}
	}
	// pass 2: summaries to a fixpoint
	for changed := true; changed; {
		changed = false
		for _, f := range p.Funcs {
			var s Eff
			for _, ci := range E.byFn[f] {
				s |= ci.Direct
				for _, c := range ci.Callees {
					s |= E.summary[c]
				}
			}
			if s != E.summary[f] {
				E.summary[f] = s
				changed = true
			}
		}
	}
	for _, cis := range E.byFn {
		for _, ci := range cis {
			ci.Trans = ci.Direct
			for _, c := range ci.Callees {
				ci.Trans |= E.summary[c]
			}
		}
	}
	sort.Strings(E.unknown)
	sort.Strings(E.premise)
	effCache = E
	return E
}

func shortQual(p *types.Package) string { return p.Name() }

func isActivityCallbackSig(sig *types.Signature) bool {
	if sig.Params().Len() != 2 || sig.Results().Len() != 1 {
		return false
	}
	if !typeIs(sig.Params().At(0).Type(), "context", "Context") {
		return false
	}
	n := namedOf(sig.Params().At(1).Type())
	if n == nil || n.Obj().Pkg() == nil || n.Obj().Pkg().Path() != modPath+"/streams/vocab" {
		return false
	}
	return sig.Results().At(0).Type().String() == "error"
}

func classifyBySig(t types.Type) (Eff, []*ssa.Function, string) {
	sig, ok := t.Underlying().(*types.Signature)
	if !ok {
		return eUNKNOWN, nil, "dynamic call of non-func value"
	}
	for i := 0; i < sig.Results().Len(); i++ {
		if isPubNamed(sig.Results().At(i).Type(), "Transport") {
			return eTP, nil, "func value returning Transport"
		}
	}
	if isActivityCallbackSig(sig) {
		return eCB, nil, "application activity callback"
	}
	return eUNKNOWN, nil, "dynamic call of func value " + types.TypeString(t, shortQual)
}

func classifyField(E *Effects, fv *types.Var) (Eff, []*ssa.Function, string) {
	if E.fieldSet[fv] {
		var fns []*ssa.Function
		var eff Eff
		for _, fn := range E.fieldFns[fv] {
			if fn == nil {
				e, _, _ := classifyBySig(fv.Type())
				eff |= e
			} else {
				fns = append(fns, fn)
			}
		}
		return eff, fns, "field " + fv.Name() + " (set inside pub)"
	}
	e, _, l := classifyBySig(fv.Type())
	if fv.Exported() {
		return e, nil, "application callback field " + fv.Name()
	}
	return e, nil, "field " + fv.Name() + ": " + l
}

func isResolverDispatch(f *ssa.Function) bool {
	if f.Pkg == nil || f.Pkg.Pkg.Path() != modPath+"/streams" || f.Signature.Recv() == nil {
		return false
	}
	rn := namedOf(f.Signature.Recv().Type())
	if rn == nil {
		return false
	}
	switch rn.Obj().Name() + "." + f.Name() {
	case "TypeResolver.Resolve", "JSONResolver.Resolve", "TypePredicatedResolver.Apply":
		return true
	}
	return false
}

// checkPremise verifies that a call leaving pub hands over nothing through
// which the callee could reach application code: no func value and no value
// whose static type is an application interface. The resolver constructors are
// the sanctioned exception (their dispatch methods are modelled).
func (E *Effects) checkPremise(p *Pub, f *ssa.Function, ci ssa.CallInstruction, callee *ssa.Function) {
	if callee.Pkg != nil && callee.Pkg.Pkg.Path() == modPath+"/streams" {
		switch callee.Name() {
		case "NewTypeResolver", "NewJSONResolver", "NewTypePredicatedResolver":
			return
		}
	}
	var bad func(t types.Type, depth int) string
	bad = func(t types.Type, depth int) string {
		if depth > 3 {
			return ""
		}
		if n := pubIfaceName(t); n != "" && appInterfaces[n] {
			return "application interface " + n
		}
		switch u := t.Underlying().(type) {
		case *types.Signature:
			return "func value " + types.TypeString(t, shortQual)
		case *types.Pointer:
			return bad(u.Elem(), depth+1)
		case *types.Slice:
			return bad(u.Elem(), depth+1)
		case *types.Struct:
			if nn := namedOf(t); nn != nil && nn.Obj().Pkg() != nil && nn.Obj().Pkg().Path() == modPath+"/pub" {
				for i := 0; i < u.NumFields(); i++ {
					if r := bad(u.Field(i).Type(), depth+1); r != "" {
						return "struct " + nn.Obj().Name() + " holding " + r
					}
				}
			}
		}
		return ""
	}
	for _, a := range ci.Common().Args {
		v := a
		if mi, ok := v.(*ssa.MakeInterface); ok {
			v = mi.X
		}
		if r := bad(v.Type(), 0); r != "" {
			E.premise = append(E.premise, fmt.Sprintf("%s: %s passes %s to %s", p.pos(ci), fname(f), r, callee.String()))
		}
	}
}

func (E *Effects) Info(ci ssa.CallInstruction) *CallInfo { return E.calls[ci] }

// registeredInCallbacks: method f of the struct is handed out as a method
// value by <struct>.callbacks (the only place where default callbacks are put
// into the resolver). A method with a callback-like signature that is not
// registered there (e.g. a per-element helper) is not a default callback.
func registeredInCallbacks(p *Pub, structName string, f *ssa.Function) bool {
	cb := p.Func(structName + ".callbacks")
	if cb == nil {
		return true // cannot tell: keep the old, wider reading
	}
	for _, b := range cb.Blocks {
		for _, ins := range b.Instrs {
			mc, ok := ins.(*ssa.MakeClosure)
			if !ok {
				continue
			}
			w, ok := mc.Fn.(*ssa.Function)
			if !ok || !strings.HasPrefix(w.Synthetic, "bound method wrapper") {
				continue
			}
			if o, ok := w.Object().(*types.Func); ok && o == f.Object() {
				return true
			}
		}
	}
	return false
}
