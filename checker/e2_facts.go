package main

// E2 — forward must-facts dataflow over SSA blocks.
//
// A fact is (canonical value, kind[, constant]). Facts are added on the edges
// of an If from its condition, intersected at joins, and iterated to a
// fixpoint. Non-escaping Allocs (named results spilled because of defer, local
// variables captured by nothing) get store-to-load forwarding so that
// `err = f(); if err != nil` is seen through the memory cell.

import (
	"fmt"
	"go/constant"
	"go/token"
	"go/types"
	"sort"
	"strings"

	"golang.org/x/tools/go/ssa"
)

type factKind uint8

const (
	fTRUE factKind = iota
	fFALSE
	fNIL
	fNONNIL
	fEQ  // == constant c
	fNEQ // != constant c
)

func (k factKind) String() string {
	return [...]string{"true", "false", "nil", "nonnil", "==", "!="}[k]
}

type fact struct {
	v string // canonical value
	k factKind
	c string // constant (fEQ/fNEQ)
}

type factState struct {
	facts map[fact]bool
	mem   map[*ssa.Alloc]ssa.Value // last value stored, when known on every path
	alias map[ssa.Value]ssa.Value  // load -> value it loaded
	// pending: merged values that were tested with more than one incoming edge still
	// possible; a later test may rule edges out and complete the implication
	pending map[*ssa.Phi]factKind
}

func newFactState() *factState {
	return &factState{map[fact]bool{}, map[*ssa.Alloc]ssa.Value{}, map[ssa.Value]ssa.Value{}, map[*ssa.Phi]factKind{}}
}

func (s *factState) clone() *factState {
	n := newFactState()
	for k := range s.facts {
		n.facts[k] = true
	}
	for k, v := range s.mem {
		n.mem[k] = v
	}
	for k, v := range s.alias {
		n.alias[k] = v
	}
	for k, v := range s.pending {
		n.pending[k] = v
	}
	return n
}

func meetFacts(a, b *factState) *factState {
	n := newFactState()
	for k := range a.facts {
		if b.facts[k] {
			n.facts[k] = true
		}
	}
	for k, v := range a.mem {
		if w, ok := b.mem[k]; ok && w == v {
			n.mem[k] = v
		}
	}
	for k, v := range a.alias {
		if w, ok := b.alias[k]; ok && w == v {
			n.alias[k] = v
		}
	}
	for k, v := range a.pending {
		if w, ok := b.pending[k]; ok && w == v {
			n.pending[k] = v
		}
	}
	return n
}

func (s *factState) equal(o *factState) bool {
	if len(s.facts) != len(o.facts) || len(s.mem) != len(o.mem) || len(s.alias) != len(o.alias) || len(s.pending) != len(o.pending) {
		return false
	}
	for k, v := range s.pending {
		if w, ok := o.pending[k]; !ok || w != v {
			return false
		}
	}
	for k := range s.facts {
		if !o.facts[k] {
			return false
		}
	}
	for k, v := range s.mem {
		if o.mem[k] != v {
			return false
		}
	}
	for k, v := range s.alias {
		if o.alias[k] != v {
			return false
		}
	}
	return true
}

// FuncFacts holds the result of the analysis of one function.
type FuncFacts struct {
	fn        *ssa.Function
	in        map[*ssa.BasicBlock]*factState
	at        map[ssa.Instruction]*factState   // state just before each call / return / store instruction
	edgeIn    map[*ssa.BasicBlock][]*factState // per predecessor (same order as Preds): state carried by that edge
	phiImpl   map[*ssa.BasicBlock][]*factState // edge states of the first pass, used for flag implications
	spillOf   map[*ssa.Alloc]*ssa.Parameter    // value parameters spilled to a local that is never written again
	mutated   map[string]bool                  // canonical receivers on which the function calls a mutator
	ids       map[ssa.Value]int
	doneIDs   map[ssa.Instruction]int // "this call has been executed" facts (path-sensitive ordering)
	inRetry   bool
	implDepth int
	escaped   map[*ssa.Alloc]bool
	pure      func(*ssa.Function) bool
	// storedFields: fields (by struct type + index) stored to anywhere in the function
	fieldStored map[string]bool
}

var globalsAssigned map[*ssa.Global]bool // globals stored to outside package initialisers

func computeGlobalsAssigned(p *Pub) {
	if globalsAssigned != nil {
		return
	}
	globalsAssigned = map[*ssa.Global]bool{}
	for _, f := range p.Funcs {
		for _, b := range f.Blocks {
			for _, ins := range b.Instrs {
				if st, ok := ins.(*ssa.Store); ok {
					if g, ok := st.Addr.(*ssa.Global); ok {
						globalsAssigned[g] = true
					}
				}
			}
		}
	}
}

// purePredicates are functions whose result depends only on their arguments
// and which have no effect, so two calls with equal arguments are one value.
func isPurePredicate(f *ssa.Function) bool {
	if f == nil || f.Pkg == nil {
		return false
	}
	path := f.Pkg.Pkg.Path()
	name := f.Name()
	if path == modPath+"/streams" {
		return strings.HasPrefix(name, "IsOrExtends") || name == "IsUnmatchedErr" || strings.Contains(name, "IsExtendedBy") || strings.Contains(name, "IsDisjointWith")
	}
	if path == modPath+"/pub" {
		switch name {
		case "isActivityPubPost", "isActivityPubGet", "IsPublic", "isSuccess", "headerIsActivityPubMediaType":
			return true
		}
	}
	return false
}

func (ff *FuncFacts) id(v ssa.Value) string {
	if n, ok := ff.ids[v]; ok {
		return fmt.Sprintf("v%d", n)
	}
	n := len(ff.ids) + 1
	ff.ids[v] = n
	return fmt.Sprintf("v%d", n)
}

func fieldName(t types.Type, idx int) string {
	if p, ok := t.Underlying().(*types.Pointer); ok {
		t = p.Elem()
	}
	if s, ok := t.Underlying().(*types.Struct); ok && idx < s.NumFields() {
		return s.Field(idx).Name()
	}
	return fmt.Sprintf("#%d", idx)
}

// canon gives a state-independent canonical name to v; values that denote the
// same thing wherever they are evaluated (parameter fields that are never
// stored to, unassigned globals, constants, pure predicate calls on canonical
// arguments) share a name, everything else is named by its SSA identity.
func (ff *FuncFacts) canon(s *factState, v ssa.Value) string {
	for i := 0; i < 8; i++ {
		if a, ok := s.alias[v]; ok {
			v = a
		} else {
			break
		}
	}
	switch x := v.(type) {
	case *ssa.Const:
		if x.IsNil() {
			return "nil"
		}
		if x.Value != nil {
			return "const:" + x.Value.ExactString()
		}
		return "const:zero:" + x.Type().String()
	case *ssa.Parameter:
		return "param:" + x.Name()
	case *ssa.FreeVar:
		return "free:" + x.Name()
	case *ssa.Global:
		return "global:" + x.Pkg.Pkg.Name() + "." + x.Name()
	case *ssa.Function:
		return "func:" + x.String()
	case *ssa.Field:
		return ff.canon(s, x.X) + "." + fieldName(x.X.Type(), x.Field)
	case *ssa.FieldAddr:
		return "&" + ff.canon(s, x.X) + "->" + fieldName(x.X.Type(), x.Field)
	case *ssa.UnOp:
		switch x.Op {
		case token.MUL:
			switch a := x.X.(type) {
			case *ssa.Global:
				if !globalsAssigned[a] {
					return "global:" + a.Pkg.Pkg.Name() + "." + a.Name()
				}
			case *ssa.FieldAddr:
				key := a.X.Type().String() + "#" + fmt.Sprint(a.Field)
				if al, ok := a.X.(*ssa.Alloc); ok {
					if prm := ff.spillOf[al]; prm != nil {
						return "param:" + prm.Name() + "." + fieldName(a.X.Type(), a.Field)
					}
				}
				if !ff.fieldStored[key] {
					switch a.X.(type) {
					case *ssa.Parameter, *ssa.FreeVar:
						return ff.canon(s, a.X) + "->" + fieldName(a.X.Type(), a.Field)
					}
				}
			}
		case token.NOT:
			return "!" + ff.canon(s, x.X)
		}
	case *ssa.ChangeType:
		return ff.canon(s, x.X)
	case *ssa.MakeInterface:
		return ff.canon(s, x.X)
	case *ssa.Call:
		if pureGetter(x) {
			rn := ff.canon(s, x.Call.Value)
			if !ff.mutated[rn] {
				return "get:" + rn + "." + x.Call.Method.Name()
			}
		}
		if f := x.Call.StaticCallee(); f != nil && isPurePredicate(f) {
			var as []string
			for _, a := range x.Call.Args {
				as = append(as, ff.canon(s, a))
			}
			return "pure:" + f.Name() + "(" + strings.Join(as, ",") + ")"
		}
	}
	return ff.id(v)
}

func constString(c *ssa.Const) string {
	if c.IsNil() {
		return "nil"
	}
	if c.Value == nil {
		return "zero"
	}
	if c.Value.Kind() == constant.String {
		return constant.StringVal(c.Value)
	}
	return c.Value.ExactString()
}

// assume adds the facts implied by cond == b.
func (ff *FuncFacts) assume(s *factState, cond ssa.Value, b bool) {
	for i := 0; i < 8; i++ {
		if a, ok := s.alias[cond]; ok {
			cond = a
		} else {
			break
		}
	}
	switch x := cond.(type) {
	case *ssa.Phi:
		if ff.phiImpl != nil && x.Type().String() == "bool" {
			want := fFALSE
			if b {
				want = fTRUE
			}
			ff.importPhi(s, x, want)
		}
	case *ssa.UnOp:
		if x.Op == token.NOT {
			ff.assume(s, x.X, !b)
			return
		}
	case *ssa.BinOp:
		if x.Op == token.EQL || x.Op == token.NEQ {
			eq := (x.Op == token.EQL) == b
			l, r := x.X, x.Y
			// the generated End() of every property returns the nil iterator: `iter != prop.End()` is a nil test
			if isEndCall(r) {
				r = ssa.NewConst(nil, r.Type())
			} else if isEndCall(l) {
				l = ssa.NewConst(nil, l.Type())
			}
			lc, lIsC := l.(*ssa.Const)
			rc, rIsC := r.(*ssa.Const)
			if lIsC && !rIsC {
				l, r, lc, rc, lIsC, rIsC = r, l, rc, lc, rIsC, lIsC
			}
			_ = lc
			if rIsC {
				if rc.IsNil() {
					// a merged value tested against nil: what holds on every edge that can supply such a value
					if phi, ok := l.(*ssa.Phi); ok && ff.phiImpl != nil {
						want := fNONNIL
						if eq {
							want = fNIL
						}
						ff.importPhi(s, phi, want)
					}
					if eq {
						s.facts[fact{ff.canon(s, l), fNIL, ""}] = true
						// streams.ToType returns a value whenever it returns a nil error
						if ex, ok := l.(*ssa.Extract); ok && ex.Index == 1 {
							if c, ok := ex.Tuple.(*ssa.Call); ok && staticName(c) == "streams.ToType" {
								if v := extractOf(c, 0); v != nil {
									s.facts[fact{ff.canon(s, v), fNONNIL, ""}] = true
								}
							}
						}
					} else {
						s.facts[fact{ff.canon(s, l), fNONNIL, ""}] = true
					}
				} else if rc.Value != nil && rc.Value.Kind() == constant.Bool {
					ff.assume(s, l, constant.BoolVal(rc.Value) == eq)
				} else {
					k := fNEQ
					if eq {
						k = fEQ
					}
					s.facts[fact{ff.canon(s, l), k, "const:" + constString(rc)}] = true
				}
			} else {
				// value == value: record against canonical right side when it is a
				// stable name (global sentinel, parameter field, constant)
				rn := ff.canon(s, r)
				ln := ff.canon(s, l)
				k := fNEQ
				if eq {
					k = fEQ
				}
				if !strings.HasPrefix(rn, "v") {
					s.facts[fact{ln, k, rn}] = true
				}
				if !strings.HasPrefix(ln, "v") {
					s.facts[fact{rn, k, ln}] = true
				}
			}
		}
	}
	cn := ff.canon(s, cond)
	if b {
		s.facts[fact{cn, fTRUE, ""}] = true
	} else {
		s.facts[fact{cn, fFALSE, ""}] = true
	}
	// what was learnt may rule out further edges of merges tested earlier
	if !ff.inRetry && len(s.pending) > 0 {
		ff.inRetry = true
		for round := 0; round < 3; round++ {
			progress := false
			for x, want := range s.pending {
				before := len(s.facts)
				ff.importPhi(s, x, want)
				if _, still := s.pending[x]; !still || len(s.facts) != before {
					progress = true
				}
			}
			if !progress {
				break
			}
		}
		ff.inRetry = false
	}
}

func (ff *FuncFacts) killValue(s *factState, v ssa.Value) {
	name := ff.canon(s, v)
	if !strings.HasPrefix(name, "v") {
		return
	}
	for f := range s.facts {
		if f.v == name {
			delete(s.facts, f)
		}
	}
}

// step applies one instruction to the state.
func (ff *FuncFacts) doneName(ins ssa.Instruction) string {
	n, ok := ff.doneIDs[ins]
	if !ok {
		n = len(ff.doneIDs) + 1
		ff.doneIDs[ins] = n
	}
	return fmt.Sprintf("done:%d", n)
}

func (ff *FuncFacts) step(s *factState, ins ssa.Instruction) {
	if _, ok := ins.(ssa.CallInstruction); ok {
		if _, isGo := ins.(*ssa.Go); !isGo {
			s.facts[fact{ff.doneName(ins), fTRUE, ""}] = true
		}
	}
	switch x := ins.(type) {
	case *ssa.Store:
		if a, ok := x.Addr.(*ssa.Alloc); ok && !ff.escaped[a] {
			s.mem[a] = x.Val
		}
	case *ssa.UnOp:
		if x.Op == token.MUL {
			delete(s.alias, x)
			if a, ok := x.X.(*ssa.Alloc); ok && !ff.escaped[a] {
				if v, ok := s.mem[a]; ok {
					s.alias[x] = v
				}
			}
		}
	case *ssa.Alloc:
		delete(s.mem, x)
	case *ssa.Call:
		// a newly made error is not nil
		if freshNonNil(x) {
			s.facts[fact{ff.canon(s, x), fNONNIL, ""}] = true
		}
		// constructors of package streams never return nil
		if f := x.Call.StaticCallee(); f != nil && f.Pkg != nil && f.Pkg.Pkg.Path() == modPath+"/streams" && strings.HasPrefix(f.Name(), "New") && !strings.HasSuffix(f.Name(), "Resolver") {
			s.facts[fact{ff.canon(s, x), fNONNIL, ""}] = true
		}
	}
}

func isEndCall(v ssa.Value) bool {
	c, ok := v.(*ssa.Call)
	return ok && c.Common().IsInvoke() && c.Common().Method.Name() == "End" && len(c.Common().Args) == 0
}

// isVocabIface: t is a named interface of streams/vocab (or pub's own
// interfaces composed of vocab getters, such as Activity).
func isVocabIface(t types.Type) bool {
	n, ok := t.(*types.Named)
	if !ok || n.Obj().Pkg() == nil {
		return false
	}
	if _, ok := n.Underlying().(*types.Interface); !ok {
		return false
	}
	pp := n.Obj().Pkg().Path()
	if strings.HasSuffix(pp, "/streams/vocab") {
		return true
	}
	return pp == modPath+"/pub" && !appInterfaces[n.Obj().Name()]
}

// pureGetter: a zero-argument Get*/Is*/Len invoke on a vocab value. Two such
// calls on the same receiver denote the same value as long as the function
// never mutates that receiver (checked by receiverMutated).
func pureGetter(c *ssa.Call) bool {
	cc := c.Common()
	if !cc.IsInvoke() || len(cc.Args) != 0 || !isVocabIface(cc.Value.Type()) {
		return false
	}
	n := cc.Method.Name()
	return strings.HasPrefix(n, "Get") || strings.HasPrefix(n, "Is") || n == "Len"
}

var factsCache = map[*ssa.Function]*FuncFacts{}

func computeFacts(fn *ssa.Function) *FuncFacts {
	if ff, ok := factsCache[fn]; ok {
		return ff
	}
	ff := computeFactsUncached(fn)
	factsCache[fn] = ff
	return ff
}

func computeFactsUncached(fn *ssa.Function) *FuncFacts {
	ff := &FuncFacts{fn: fn, in: map[*ssa.BasicBlock]*factState{}, at: map[ssa.Instruction]*factState{}, ids: map[ssa.Value]int{}, doneIDs: map[ssa.Instruction]int{}, escaped: map[*ssa.Alloc]bool{}, fieldStored: map[string]bool{}}
	if len(fn.Blocks) == 0 {
		return ff
	}
	for _, b := range fn.Blocks {
		for _, ins := range b.Instrs {
			if a, ok := ins.(*ssa.Alloc); ok {
				for _, r := range *a.Referrers() {
					switch u := r.(type) {
					case *ssa.Store:
						if u.Addr != a || u.Val == a {
							ff.escaped[a] = true
						}
					case *ssa.UnOp:
						if u.Op != token.MUL {
							ff.escaped[a] = true
						}
					case *ssa.DebugRef:
					case *ssa.MakeClosure:
						// captured by a closure: harmless if the closure only reads it
						if !closureOnlyReads(u, a) {
							ff.escaped[a] = true
						}
					default:
						ff.escaped[a] = true
					}
				}
			}
			if st, ok := ins.(*ssa.Store); ok {
				if fa, ok := st.Addr.(*ssa.FieldAddr); ok {
					ff.fieldStored[fa.X.Type().String()+"#"+fmt.Sprint(fa.Field)] = true
				}
			}
		}
	}
	// receivers the function mutates (their getters are not stable)
	ff.mutated = map[string]bool{}
	{
		tmp := newFactState()
		for _, b := range fn.Blocks {
			for _, ins := range b.Instrs {
				if ci, ok := ins.(ssa.CallInstruction); ok && ci.Common().IsInvoke() {
					m := ci.Common().Method.Name()
					if hasPrefixAny(m, "Set", "Append", "Prepend", "Insert") || m == "Remove" || m == "Swap" || m == "Clear" {
						ff.mutated[ff.canon(tmp, ci.Common().Value)] = true
					}
				}
			}
		}
	}
	// value parameters spilled to memory (address taken) and never written again
	ff.spillOf = map[*ssa.Alloc]*ssa.Parameter{}
	for _, b := range fn.Blocks {
		for _, ins := range b.Instrs {
			a, ok := ins.(*ssa.Alloc)
			if !ok {
				continue
			}
			var prm *ssa.Parameter
			okSpill := true
			nStore := 0
			for _, r := range *a.Referrers() {
				switch u := r.(type) {
				case *ssa.Store:
					if u.Addr == ssa.Value(a) {
						nStore++
						prm, _ = u.Val.(*ssa.Parameter)
					} else {
						okSpill = false
					}
				case *ssa.FieldAddr:
					for _, r2 := range *u.Referrers() {
						if st, ok := r2.(*ssa.Store); ok && st.Addr == ssa.Value(u) {
							okSpill = false
						}
					}
				case *ssa.UnOp, *ssa.DebugRef:
				default:
					okSpill = false // address passed on (e.g. pointer-receiver call)
				}
			}
			if okSpill && nStore == 1 && prm != nil {
				ff.spillOf[a] = prm
			}
		}
	}
	for pass := 0; pass < 2; pass++ {
		if pass == 1 {
			// second pass: a boolean flag merged from constants implies, when tested,
			// the facts of the edges on which it got that value (taken from pass one)
			ff.phiImpl = ff.edgeIn
			ff.in = map[*ssa.BasicBlock]*factState{}
			ff.at = map[ssa.Instruction]*factState{}
		}
		ff.in[fn.Blocks[0]] = newFactState()
		work := []*ssa.BasicBlock{fn.Blocks[0]}
		if fn.Recover != nil {
			ff.in[fn.Recover] = newFactState()
			work = append(work, fn.Recover)
		}
		n := 0
		for len(work) > 0 {
			n++
			if n > 200000 {
				panic("facts: no fixpoint in " + fn.String())
			}
			b := work[0]
			work = work[1:]
			s := ff.in[b].clone()
			for _, ins := range b.Instrs {
				ff.step(s, ins)
			}
			for si, succ := range b.Succs {
				out, feasible := ff.transferEdge(b, si, s)
				if !feasible {
					continue // the edge contradicts what is known on every path reaching it: infeasible
				}
				if old, ok := ff.in[succ]; ok {
					m := meetFacts(old, out)
					if !m.equal(old) {
						ff.in[succ] = m
						work = append(work, succ)
					}
				} else {
					ff.in[succ] = out
					work = append(work, succ)
				}
			}
		}
		// per-edge states (after the branch assumption and phi transfer), for disjunctive queries
		ff.edgeIn = map[*ssa.BasicBlock][]*factState{}
		for _, b := range fn.Blocks {
			st, ok := ff.in[b]
			if !ok {
				continue
			}
			s := st.clone()
			for _, ins := range b.Instrs {
				ff.step(s, ins)
			}
			for si, succ := range b.Succs {
				out := s.clone()
				if ifi, ok := b.Instrs[len(b.Instrs)-1].(*ssa.If); ok {
					ff.assume(out, ifi.Cond, si == 0)
				}
				if ff.edgeIn[succ] == nil {
					ff.edgeIn[succ] = make([]*factState, len(succ.Preds))
				}
				for i, p := range succ.Preds {
					if p == b && ff.edgeIn[succ][i] == nil {
						ff.edgeIn[succ][i] = out
						break
					}
				}
			}
		}
		// record the state before every instruction of interest
		for _, b := range fn.Blocks {
			st, ok := ff.in[b]
			if !ok {
				continue
			}
			s := st.clone()
			for _, ins := range b.Instrs {
				switch ins.(type) {
				case ssa.CallInstruction, *ssa.Return, *ssa.Store, *ssa.MapUpdate, *ssa.If, *ssa.Send:
					ff.at[ins] = s.clone()
				}
				ff.step(s, ins)
			}
		}
	} // pass
	return ff
}

// has reports whether fact (v,k,c) holds just before ins.
func (ff *FuncFacts) has(ins ssa.Instruction, v ssa.Value, k factKind, c string) bool {
	s := ff.at[ins]
	if s == nil {
		return false
	}
	return s.facts[fact{ff.canon(s, v), k, c}]
}

func (ff *FuncFacts) hasName(ins ssa.Instruction, name string, k factKind, c string) bool {
	s := ff.at[ins]
	if s == nil {
		return false
	}
	return s.facts[fact{name, k, c}]
}

// reachable reports whether ins lies in a block the analysis reached.
func (ff *FuncFacts) reachable(ins ssa.Instruction) bool { return ff.at[ins] != nil }

// resolve follows load aliases of v in the state before ins.
func (ff *FuncFacts) resolve(ins ssa.Instruction, v ssa.Value) ssa.Value {
	s := ff.at[ins]
	if s == nil {
		return v
	}
	for i := 0; i < 8; i++ {
		if a, ok := s.alias[v]; ok {
			v = a
		} else {
			break
		}
	}
	return v
}

// describe lists the facts before ins, for reports.
func (ff *FuncFacts) describe(ins ssa.Instruction) string {
	s := ff.at[ins]
	if s == nil {
		return "<unreachable>"
	}
	var out []string
	for f := range s.facts {
		if strings.HasPrefix(f.v, "v") && f.k != fTRUE && f.k != fFALSE && f.k != fNIL && f.k != fNONNIL {
			continue
		}
		out = append(out, ff.pretty(f))
	}
	sort.Strings(out)
	return strings.Join(out, " ∧ ")
}

func (ff *FuncFacts) pretty(f fact) string {
	name := f.v
	if strings.HasPrefix(name, "v") {
		for v, n := range ff.ids {
			if fmt.Sprintf("v%d", n) == name {
				name = valueLabel(v)
			}
		}
	}
	switch f.k {
	case fEQ, fNEQ:
		return name + f.k.String() + f.c
	}
	return name + " is " + f.k.String()
}

// valueLabel gives a readable label for an SSA value (callee name for calls
// and their extracts).
func valueLabel(v ssa.Value) string {
	switch x := v.(type) {
	case *ssa.Extract:
		return fmt.Sprintf("%s#%d", valueLabel(x.Tuple), x.Index)
	case *ssa.Call:
		c := x.Common()
		if c.IsInvoke() {
			return c.Method.Name() + "()"
		}
		if f := c.StaticCallee(); f != nil {
			return f.Name() + "()"
		}
		return "dyncall()"
	case *ssa.Phi:
		if x.Comment != "" {
			return "phi(" + x.Comment + ")"
		}
	case *ssa.UnOp:
		if x.Op == token.MUL {
			return "*" + valueLabel(x.X)
		}
	case *ssa.FieldAddr:
		return valueLabel(x.X) + "." + fieldName(x.X.Type(), x.Field)
	case *ssa.Alloc:
		if x.Comment != "" {
			return x.Comment
		}
	case *ssa.TypeAssert:
		return valueLabel(x.X) + ".(" + types.TypeString(x.AssertedType, func(*types.Package) string { return "" }) + ")"
	}
	return v.Name()
}

// factPred is a predicate over a fact state.
type factPred func(s *factState) bool

// holdsOnEveryPath reports whether pred holds in the state before ins, or —
// when the block is a join — on every incoming edge (looking through up to
// `depth` levels of joins). This recovers disjunctive conditions
// (`a || b`) that a must-analysis loses at the join.
func (ff *FuncFacts) holdsOnEveryPath(ins ssa.Instruction, pred factPred, depth int) bool {
	s := ff.at[ins]
	if s == nil {
		return false
	}
	if pred(s) {
		return true
	}
	return ff.blockEdgesHold(ins.Block(), pred, depth, map[*ssa.BasicBlock]bool{})
}

func (ff *FuncFacts) blockEdgesHold(b *ssa.BasicBlock, pred factPred, depth int, seen map[*ssa.BasicBlock]bool) bool {
	if seen[b] {
		return true // reached again round a loop: holds if it holds on the entry edges (coinduction over loop-invariant facts)
	}
	if depth == 0 || len(b.Preds) == 0 {
		return false
	}
	seen[b] = true
	edges := ff.edgeIn[b]
	if len(edges) != len(b.Preds) {
		return false
	}
	for i, es := range edges {
		if es == nil {
			continue // edge from an unreachable block
		}
		if pred(es) {
			continue
		}
		if ff.phiSplitHolds(b.Preds[i], b, pred) {
			continue
		}
		if !ff.blockEdgesHold(b.Preds[i], pred, depth-1, seen) {
			return false
		}
	}
	return true
}

// errStatus classifies result idx of a return as possibly nil / possibly non-nil.
func (ff *FuncFacts) errStatus(r *ssa.Return, idx int) (mayNil, mayNonNil bool) {
	return ff.errStatusIn(ff.at[r], r.Results[idx])
}

// errStatusIn: can value v (an error) be nil / non-nil in state s?
func (ff *FuncFacts) errStatusIn(s *factState, v0 ssa.Value) (mayNil, mayNonNil bool) {
	var visit func(v ssa.Value, depth int)
	visit = func(v ssa.Value, depth int) {
		if s != nil {
			for i := 0; i < 8; i++ {
				if a, ok := s.alias[v]; ok {
					v = a
				} else {
					break
				}
			}
		}
		if isNilConst(v) {
			mayNil = true
			return
		}
		if s != nil {
			n := ff.canon(s, v)
			if s.facts[fact{n, fNIL, ""}] {
				mayNil = true
				return
			}
			if s.facts[fact{n, fNONNIL, ""}] {
				mayNonNil = true
				return
			}
		}
		switch x := v.(type) {
		case *ssa.Call:
			switch staticName(x) {
			case "fmt.Errorf", "errors.New":
				mayNonNil = true
				return
			}
		case *ssa.UnOp:
			if _, ok := x.X.(*ssa.Global); ok && x.Op == token.MUL {
				mayNonNil = true // package-level sentinel error
				return
			}
		case *ssa.Phi:
			if depth < 4 {
				for _, e := range x.Edges {
					visit(e, depth+1)
				}
				return
			}
		}
		mayNil, mayNonNil = true, true
	}
	visit(v0, 0)
	return
}

// closureOnlyReads reports whether the closure mc, which captures alloc a,
// only ever loads from it (transitively through nested closures).
func closureOnlyReads(mc *ssa.MakeClosure, a ssa.Value) bool {
	fn, ok := mc.Fn.(*ssa.Function)
	if !ok {
		return false
	}
	for i, b := range mc.Bindings {
		if b != a || i >= len(fn.FreeVars) {
			continue
		}
		fv := fn.FreeVars[i]
		for _, r := range *fv.Referrers() {
			switch u := r.(type) {
			case *ssa.UnOp:
				if u.Op != token.MUL {
					return false
				}
			case *ssa.DebugRef:
			case *ssa.MakeClosure:
				if !closureOnlyReads(u, fv) {
					return false
				}
			default:
				return false
			}
		}
	}
	return true
}

// contradictory reports whether the state holds two facts that exclude each
// other about one value (possible only on an infeasible edge).
func contradictory(s *factState) bool {
	for f := range s.facts {
		switch f.k {
		case fTRUE:
			if s.facts[fact{f.v, fFALSE, ""}] {
				return true
			}
		case fNIL:
			if s.facts[fact{f.v, fNONNIL, ""}] {
				return true
			}
		case fEQ:
			if s.facts[fact{f.v, fNEQ, f.c}] {
				return true
			}
		}
	}
	return false
}

// phiImplies: the facts that hold whenever the merged value x has kind `want`
// (true/false/nil/non-nil): the intersection, over the incoming edges that can
// supply such a value, of the first-pass facts carried by the edge (plus the
// fact that the incoming value has that kind). An edge is excluded when its
// value is a constant of the other kind or is known, on that edge, to have the
// other kind. Nil result: nothing is known (or no edge can supply it).
func (ff *FuncFacts) phiImplies(x *ssa.Phi, want factKind, seen map[*ssa.Phi]bool, cur *factState) (map[fact]bool, []int) {
	seen[x] = true
	es := ff.phiImpl[x.Block()]
	if len(es) != len(x.Edges) {
		return nil, nil
	}
	var included []int
	opposite := map[factKind]factKind{fTRUE: fFALSE, fFALSE: fTRUE, fNIL: fNONNIL, fNONNIL: fNIL}[want]
	var common map[fact]bool
	meet := func(m map[fact]bool) {
		if common == nil {
			common = map[fact]bool{}
			for f := range m {
				common[f] = true
			}
			return
		}
		for f := range common {
			if !m[f] {
				delete(common, f)
			}
		}
	}
	for i, e := range x.Edges {
		st := es[i]
		if st == nil {
			continue // edge from an unreachable block
		}
		// an edge whose facts contradict what is known now was not the one taken
		if cur != nil && !ff.curLoopDiffers(x, cur) {
			u := newFactState()
			for f := range st.facts {
				u.facts[f] = true
			}
			for f := range cur.facts {
				u.facts[f] = true
			}
			if contradictory(u) {
				continue
			}
		}
		if c, isC := e.(*ssa.Const); isC {
			isOpp := false
			if c.IsNil() {
				isOpp = opposite == fNIL
			} else if c.Value != nil && c.Value.Kind() == constant.Bool {
				if constant.BoolVal(c.Value) {
					isOpp = opposite == fTRUE
				} else {
					isOpp = opposite == fFALSE
				}
			}
			if isOpp {
				continue
			}
			meet(st.facts)
			included = append(included, i)
			continue
		}
		en := ff.canon(st, e)
		if st.facts[fact{en, opposite, ""}] {
			continue
		}
		if freshNonNil(e) && want == fNIL {
			continue
		}
		// the edge taken with the tested outcome: what that says about the incoming value
		us := st.clone()
		if _, isPhi := e.(*ssa.Phi); !isPhi && ff.implDepth < 3 {
			switch want {
			case fTRUE, fFALSE:
				wasRetry := ff.inRetry
				ff.inRetry = true
				ff.implDepth++
				ff.assume(us, e, want == fTRUE)
				ff.implDepth--
				ff.inRetry = wasRetry
			}
		}
		us.facts[fact{en, want, ""}] = true
		if cur != nil && !ff.curLoopDiffers(x, cur) {
			both := us.clone()
			for f := range cur.facts {
				both.facts[f] = true
			}
			if contradictory(both) {
				continue
			}
		}
		u := us.facts
		// streams.ToType returns a value whenever it returns a nil error
		if ex, ok := e.(*ssa.Extract); ok && ex.Index == 1 && want == fNIL {
			if c, ok := ex.Tuple.(*ssa.Call); ok && staticName(c) == "streams.ToType" {
				if v := extractOf(c, 0); v != nil {
					u[fact{ff.canon(st, v), fNONNIL, ""}] = true
				}
			}
		}
		if ph, ok := e.(*ssa.Phi); ok && !seen[ph] {
			sub, _ := ff.phiImplies(ph, want, seen, cur)
			for f := range sub {
				u[f] = true
			}
		}
		meet(u)
		included = append(included, i)
	}
	return common, included
}

// freshNonNil: the value is a newly made error (fmt.Errorf / errors.New).
func freshNonNil(v ssa.Value) bool {
	if ld, ok := v.(*ssa.UnOp); ok && ld.Op == token.MUL {
		if g, ok := ld.X.(*ssa.Global); ok {
			return sentinelNonNil(g)
		}
	}
	c, ok := v.(*ssa.Call)
	if !ok {
		return false
	}
	n := staticName(c)
	return n == "fmt.Errorf" || n == "errors.New"
}

var sentinelCache = map[*ssa.Global]bool{}

// sentinelNonNil: a package-level error variable that is given a freshly made error by its
// package's initialiser and is never assigned anywhere else (ErrNotFound, ErrObjectRequired, …)
// is non-nil wherever it is read.
func sentinelNonNil(g *ssa.Global) bool {
	if v, ok := sentinelCache[g]; ok {
		return v
	}
	sentinelCache[g] = false
	if g.Pkg == nil || globalsAssigned == nil || globalsAssigned[g] {
		return false
	}
	init := g.Pkg.Func("init")
	if init == nil {
		return false
	}
	n, fresh := 0, 0
	for _, b := range init.Blocks {
		for _, ins := range b.Instrs {
			if st, ok := ins.(*ssa.Store); ok && st.Addr == ssa.Value(g) {
				n++
				if c, ok := st.Val.(*ssa.Call); ok {
					if nm := staticName(c); nm == "fmt.Errorf" || nm == "errors.New" {
						fresh++
					}
				}
			}
		}
	}
	sentinelCache[g] = n == 1 && fresh == 1
	return sentinelCache[g]
}

// resolveAt: the value v denotes at instruction ins, looking through merges
// (phis) all of whose incoming edges but one are excluded by what is known at
// ins. An edge is excluded when the facts it carried in the first pass
// contradict the facts holding before ins (SSA values are immutable along a
// path, so a value known nil on the edge and non-nil at ins rules the edge
// out). This is how `x, err := f(); if err != nil { return }; use(x)` is read
// after f has been expanded in place: x is a merge of the results of f's
// exits, and at the use only the exit with a nil error remains.
func (ff *FuncFacts) resolveAt(ins ssa.Instruction, v ssa.Value) ssa.Value {
	s := ff.at[ins]
	if s == nil || ff.phiImpl == nil {
		return v
	}
	for depth := 0; depth < 6; depth++ {
		if a, ok := s.alias[v]; ok {
			v = a
			continue
		}
		phi, ok := v.(*ssa.Phi)
		if !ok {
			return v
		}
		if loopHeader(loopBlocks(phi.Block())) != loopHeader(loopBlocks(ins.Block())) {
			return v
		}
		es := ff.phiImpl[phi.Block()]
		if len(es) != len(phi.Edges) {
			return v
		}
		var only ssa.Value
		n := 0
		for i, e := range phi.Edges {
			if es[i] == nil {
				continue
			}
			u := newFactState()
			for f := range es[i].facts {
				u.facts[f] = true
			}
			for f := range s.facts {
				u.facts[f] = true
			}
			if contradictory(u) {
				continue
			}
			n++
			only = e
		}
		if n != 1 {
			return v
		}
		v = only
	}
	return v
}

// feasibleAt: like resolveAt, but for a merge that keeps several feasible edges: the values that
// can arrive (merges among them resolved the same way). nil when nothing can be excluded soundly.
func (ff *FuncFacts) feasibleAt(ins ssa.Instruction, v ssa.Value, depth int) []ssa.Value {
	v = ff.resolveAt(ins, v)
	s := ff.at[ins]
	phi, ok := v.(*ssa.Phi)
	if !ok || s == nil || ff.phiImpl == nil || depth > 4 {
		return []ssa.Value{v}
	}
	if loopHeader(loopBlocks(phi.Block())) != loopHeader(loopBlocks(ins.Block())) {
		return []ssa.Value{v}
	}
	es := ff.phiImpl[phi.Block()]
	if len(es) != len(phi.Edges) {
		return []ssa.Value{v}
	}
	var out []ssa.Value
	for i, e := range phi.Edges {
		if es[i] == nil {
			continue
		}
		u := newFactState()
		for f := range es[i].facts {
			u.facts[f] = true
		}
		for f := range s.facts {
			u.facts[f] = true
		}
		if contradictory(u) {
			continue
		}
		out = append(out, ff.feasibleAt(ins, e, depth+1)...)
	}
	if len(out) == 0 {
		return []ssa.Value{v}
	}
	return out
}

// curLoopDiffers guards the use of current facts to exclude phi edges: facts
// about values computed inside a loop describe the latest iteration only, so
// the exclusion is applied only to merges outside loops.
func (ff *FuncFacts) curLoopDiffers(x *ssa.Phi, cur *factState) bool {
	return loopHeader(loopBlocks(x.Block())) != nil
}

// transferEdge: the state carried by edge number si out of block b, given the
// state s at the end of b: branch assumption, infeasibility pruning, phi
// transfer.
func (ff *FuncFacts) transferEdge(b *ssa.BasicBlock, si int, s *factState) (*factState, bool) {
	succ := b.Succs[si]
	out := s.clone()
	if ifi, ok := b.Instrs[len(b.Instrs)-1].(*ssa.If); ok {
		ff.assume(out, ifi.Cond, si == 0)
		if contradictory(out) {
			return nil, false
		}
	}
	// phi transfer: facts of the incoming value become facts of the phi
	pi := -1
	for i, p := range succ.Preds {
		if p == b {
			pi = i
		}
	}
	for _, ins := range succ.Instrs {
		phi, ok := ins.(*ssa.Phi)
		if !ok {
			break
		}
		delete(out.alias, phi)
		delete(out.pending, phi)
		pn := ff.canon(out, phi)
		for f := range out.facts {
			if f.v == pn {
				delete(out.facts, f)
			}
		}
		if pi >= 0 {
			en := ff.canon(out, phi.Edges[pi])
			if en == "nil" {
				out.facts[fact{pn, fNIL, ""}] = true
			} else if c, ok := phi.Edges[pi].(*ssa.Const); ok && c.Value != nil {
				if c.Value.Kind() == constant.Bool {
					if constant.BoolVal(c.Value) {
						out.facts[fact{pn, fTRUE, ""}] = true
					} else {
						out.facts[fact{pn, fFALSE, ""}] = true
					}
				} else {
					out.facts[fact{pn, fEQ, "const:" + constString(c)}] = true
				}
			} else {
				for f := range out.facts {
					if f.v == en {
						out.facts[fact{pn, f.k, f.c}] = true
					}
				}
			}
		}
	}
	return out, true
}

// returnsFromEdge: the returns reachable by entering `into` through the edge
// from `from` only, with the must-facts of that sub-flow (infeasible branches
// pruned), never passing through a block of `stop`. A second result lists the
// stop blocks reached.
func (ff *FuncFacts) returnsFromEdge(from, into *ssa.BasicBlock, stop map[*ssa.BasicBlock]bool) (map[*ssa.Return]*factState, []*ssa.BasicBlock) {
	rets := map[*ssa.Return]*factState{}
	var stopped []*ssa.BasicBlock
	endOf := func(b *ssa.BasicBlock) *factState {
		st, ok := ff.in[b]
		if !ok {
			return nil
		}
		s := st.clone()
		for _, ins := range b.Instrs {
			ff.step(s, ins)
		}
		return s
	}
	s0 := endOf(from)
	if s0 == nil {
		return rets, nil
	}
	si := -1
	for i, sc := range from.Succs {
		if sc == into {
			si = i
		}
	}
	first, ok := ff.transferEdge(from, si, s0)
	if !ok {
		return rets, nil
	}
	in2 := map[*ssa.BasicBlock]*factState{into: first}
	work := []*ssa.BasicBlock{into}
	for n := 0; len(work) > 0 && n < 20000; n++ {
		b := work[0]
		work = work[1:]
		if stop[b] {
			stopped = append(stopped, b)
			continue
		}
		s := in2[b].clone()
		for _, ins := range b.Instrs {
			if r, ok := ins.(*ssa.Return); ok {
				rets[r] = s.clone()
			}
			ff.step(s, ins)
		}
		for i, succ := range b.Succs {
			out, ok := ff.transferEdge(b, i, s)
			if !ok {
				continue
			}
			if old, ok := in2[succ]; ok {
				m := meetFacts(old, out)
				if !m.equal(old) {
					in2[succ] = m
					work = append(work, succ)
				}
			} else {
				in2[succ] = out
				work = append(work, succ)
			}
		}
	}
	return rets, stopped
}

// importPhi adds to s what testing the merged value x for `want` implies. When
// a single incoming edge remains possible, every merge of that block is known
// to carry the value of that edge (recorded as an alias, so that facts about
// the incoming values are facts about the merged ones).
func (ff *FuncFacts) importPhi(s *factState, x *ssa.Phi, want factKind) {
	facts, edges := ff.phiImplies(x, want, map[*ssa.Phi]bool{}, s)
	for f := range facts {
		s.facts[f] = true
	}
	if loopHeader(loopBlocks(x.Block())) != nil {
		return
	}
	if len(edges) > 1 {
		s.pending[x] = want
		return
	}
	delete(s.pending, x)
	if len(edges) != 1 {
		return
	}
	for _, ins := range x.Block().Instrs {
		y, ok := ins.(*ssa.Phi)
		if !ok {
			break
		}
		e := y.Edges[edges[0]]
		if _, isC := e.(*ssa.Const); isC {
			if isNilConst(e) {
				s.facts[fact{ff.canon(s, y), fNIL, ""}] = true
			}
			continue
		}
		if e != ssa.Value(y) {
			s.alias[y] = e
		}
	}
}

// phiSplitHolds: the edge from block p to block b is taken on the outcome of a
// test of a merged value (a named boolean such as `bad := a || b`, or a merged
// error compared with nil). pred holds on that edge if it holds, separately,
// for every incoming edge of the merge that can produce the tested outcome —
// each taken with the facts it carried plus what the outcome says about its
// incoming value.
func (ff *FuncFacts) phiSplitHolds(p, b *ssa.BasicBlock, pred factPred) bool {
	if len(p.Instrs) == 0 || ff.phiImpl == nil {
		return false
	}
	ifi, ok := p.Instrs[len(p.Instrs)-1].(*ssa.If)
	if !ok || len(p.Succs) != 2 || p.Succs[0] == p.Succs[1] {
		return false
	}
	dir := p.Succs[0] == b
	cond := ifi.Cond
	for {
		if u, ok := cond.(*ssa.UnOp); ok && u.Op == token.NOT {
			cond, dir = u.X, !dir
			continue
		}
		break
	}
	var x *ssa.Phi
	var want factKind
	switch c := cond.(type) {
	case *ssa.Phi:
		x, want = c, fFALSE
		if dir {
			want = fTRUE
		}
	case *ssa.BinOp:
		if c.Op != token.EQL && c.Op != token.NEQ {
			return false
		}
		l, r := c.X, c.Y
		if isNilConst(l) {
			l, r = r, l
		}
		ph, isPhi := l.(*ssa.Phi)
		if !isPhi || !isNilConst(r) {
			return false
		}
		x = ph
		if (c.Op == token.EQL) == dir {
			want = fNIL
		} else {
			want = fNONNIL
		}
	default:
		return false
	}
	es := ff.phiImpl[x.Block()]
	if len(es) != len(x.Edges) {
		return false
	}
	opposite := map[factKind]factKind{fTRUE: fFALSE, fFALSE: fTRUE, fNIL: fNONNIL, fNONNIL: fNIL}[want]
	n := 0
	for j, e := range x.Edges {
		st := es[j]
		if st == nil {
			continue
		}
		if c, isC := e.(*ssa.Const); isC {
			isOpp := false
			if c.IsNil() {
				isOpp = opposite == fNIL
			} else if c.Value != nil && c.Value.Kind() == constant.Bool {
				isOpp = constant.BoolVal(c.Value) == (opposite == fTRUE)
			}
			if isOpp {
				continue
			}
			n++
			if !pred(st) {
				return false
			}
			continue
		}
		if st.facts[fact{ff.canon(st, e), opposite, ""}] || (freshNonNil(e) && want == fNIL) {
			continue
		}
		u := st.clone()
		ff.implDepth++
		switch {
		case want == fTRUE && ff.implDepth < 4:
			ff.assume(u, e, true)
		case want == fFALSE && ff.implDepth < 4:
			ff.assume(u, e, false)
		default:
			u.facts[fact{ff.canon(u, e), want, ""}] = true
		}
		ff.implDepth--
		if contradictory(u) {
			continue
		}
		n++
		if !pred(u) {
			return false
		}
	}
	return n > 0
}
