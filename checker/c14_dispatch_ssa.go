package main

import (
	"fmt"
	"go/constant"
	"go/token"
	"go/types"
	"strings"

	"golang.org/x/tools/go/ssa"
)

// Shape-independent reading of the resolvers' dispatch relation, from the SSA form and the
// branch facts of E2. For every place where a callback (or the predicate) is invoked with a
// value, the facts that must hold there say which branch it is:
//
//	fn   = <element of this.callbacks | this.predicate>.(func(context.Context, T) …)   ok == true
//	v    = o.(T')  ok == true                      (TypeResolver / TypePredicatedResolver)
//	       mgr.Deserialize<N><V>()(m, aliasMap)    (JSONResolver)
//	o.VocabularyURI() == "<uri>"  ∧  o.GetTypeName() == "<Name>"            (Type…)
//	typeString == <prefix of vocabulary uri> + "<Name>"                     (JSON)
//
// whatever the statement form (if-chain, switch, guard clauses, helper functions for the
// prefix). Used when the statement-form reader of c14.go does not recognise a body.

type ssaDispatch struct {
	vocabURI, name string
	cbParam        string // name of the callback's second parameter type (vocab interface)
	valType        string // name of the asserted / deserialised value interface
	deser          string // Manager method (JSON only)
	pos            token.Pos
	problems       []string
}

func namedTypeName(t types.Type) string {
	if n, ok := t.(*types.Named); ok {
		return n.Obj().Name()
	}
	return ""
}

// stringConstsBehind: string constants reachable backwards from v through merges, concatenation,
// map lookups with a constant key, conversions and the arguments of static calls.
func stringConstsBehind(v ssa.Value, depth int, seen map[ssa.Value]bool, out map[string]bool) {
	if depth > 8 || v == nil || seen[v] {
		return
	}
	seen[v] = true
	switch x := v.(type) {
	case *ssa.Const:
		if x.Value != nil && x.Value.Kind() == constant.String {
			out[constant.StringVal(x.Value)] = true
		}
	case *ssa.Phi:
		for _, e := range x.Edges {
			stringConstsBehind(e, depth+1, seen, out)
		}
	case *ssa.BinOp:
		stringConstsBehind(x.X, depth+1, seen, out)
		stringConstsBehind(x.Y, depth+1, seen, out)
	case *ssa.Extract:
		stringConstsBehind(x.Tuple, depth+1, seen, out)
	case *ssa.Lookup:
		stringConstsBehind(x.Index, depth+1, seen, out)
	case *ssa.Call:
		for _, a := range x.Common().Args {
			stringConstsBehind(a, depth+1, seen, out)
		}
	case *ssa.UnOp:
		stringConstsBehind(x.X, depth+1, seen, out)
	case *ssa.Alloc:
		for _, r := range *x.Referrers() {
			if st, ok := r.(*ssa.Store); ok && st.Addr == ssa.Value(x) {
				stringConstsBehind(st.Val, depth+1, seen, out)
			}
		}
	case *ssa.FreeVar:
		// a variable of the enclosing function captured by the closure: look at its stores there
		if fn := x.Parent(); fn != nil && fn.Parent() != nil {
			for i, fv := range fn.FreeVars {
				if fv != x {
					continue
				}
				for _, b := range fn.Parent().Blocks {
					for _, ins := range b.Instrs {
						if mc, ok := ins.(*ssa.MakeClosure); ok && mc.Fn == ssa.Value(fn) && i < len(mc.Bindings) {
							stringConstsBehind(mc.Bindings[i], depth+1, seen, out)
						}
					}
				}
			}
		}
	case *ssa.ChangeType:
		stringConstsBehind(x.X, depth+1, seen, out)
	case *ssa.MakeInterface:
		stringConstsBehind(x.X, depth+1, seen, out)
	}
}

// dispatchBySSA reads the dispatch entries of fn (TypeResolver.Resolve, TypePredicatedResolver.Apply,
// or the per-type-string closure of JSONResolver.Resolve).
func dispatchBySSA(fn *ssa.Function) []*ssaDispatch {
	if fn == nil || len(fn.Blocks) == 0 {
		return nil
	}
	ff := computeFacts(fn)
	var out []*ssaDispatch
	for _, b := range fn.Blocks {
		for _, ins := range b.Instrs {
			c, ok := ins.(*ssa.Call)
			if !ok || c.Common().IsInvoke() || c.Common().StaticCallee() != nil {
				continue
			}
			if _, isB := c.Common().Value.(*ssa.Builtin); isB {
				continue
			}
			// the function value: a type assertion of a callback / the predicate
			fex, ok := c.Common().Value.(*ssa.Extract)
			if !ok || fex.Index != 0 {
				continue
			}
			fta, ok := fex.Tuple.(*ssa.TypeAssert)
			if !ok || !fta.CommaOk {
				continue
			}
			sig, ok := fta.AssertedType.Underlying().(*types.Signature)
			if !ok || sig.Params().Len() != 2 || len(c.Common().Args) != 2 {
				continue
			}
			e := &ssaDispatch{pos: c.Pos(), cbParam: namedTypeName(sig.Params().At(1).Type())}
			if !ff.reachable(c) {
				continue
			}
			if !ff.has(c, extractOf2(fta, 1), fTRUE, "") {
				e.problems = append(e.problems, "the callback is invoked where its type assertion is not known to have succeeded")
			}
			// the value
			switch v := c.Common().Args[1].(type) {
			case *ssa.Extract:
				switch t := v.Tuple.(type) {
				case *ssa.TypeAssert:
					e.valType = namedTypeName(t.AssertedType)
					if _, isP := t.X.(*ssa.Parameter); !isP {
						e.problems = append(e.problems, "the value asserted is not the value being resolved")
					}
					if t.CommaOk && !ff.has(c, extractOf2(t, 1), fTRUE, "") {
						e.problems = append(e.problems, "the callback is invoked where the value's assertion is not known to have succeeded")
					}
				case *ssa.Call:
					// mgr.Deserialize<N><V>()(m, aliasMap)
					e.valType = namedTypeName(v.Type())
					if inner, ok := t.Common().Value.(*ssa.Call); ok {
						if inner.Common().IsInvoke() {
							e.deser = inner.Common().Method.Name()
						} else if f := inner.Common().StaticCallee(); f != nil {
							e.deser = f.Name()
						}
					}
					if e.deser == "" {
						e.problems = append(e.problems, "the value does not come from a Manager deserialiser")
					}
					if ee := extractOf2(t, 1); ee != nil && !ff.has(c, ee, fNIL, "") {
						e.problems = append(e.problems, "the callback is invoked where the deserialiser's error is not known to be nil")
					}
				}
			}
			if e.valType == "" {
				e.problems = append(e.problems, "the value handed to the callback is neither an assertion of the resolved value nor a deserialised value")
			}
			// the comparisons known true here
			s := ff.at[c]
			for v := range ff.ids {
				bo, ok := v.(*ssa.BinOp)
				if !ok || s == nil {
					continue
				}
				// `a == b` known true, or `a != b` known false
				if !(bo.Op == token.EQL && s.facts[fact{ff.canon(s, bo), fTRUE, ""}]) && !(bo.Op == token.NEQ && s.facts[fact{ff.canon(s, bo), fFALSE, ""}]) {
					continue
				}
				subj, other := bo.X, bo.Y
				if _, isC := subj.(*ssa.Const); isC {
					subj, other = other, subj
				}
				if call, ok := subj.(*ssa.Call); ok && call.Common().IsInvoke() {
					if cs, isS := stringConst(other); isS {
						switch call.Common().Method.Name() {
						case "VocabularyURI":
							e.vocabURI = cs
						case "GetTypeName":
							e.name = cs
						}
					}
					continue
				}
				// typeString == prefix + "Name"
				if add, ok := other.(*ssa.BinOp); ok && add.Op == token.ADD {
					if nm, isS := stringConst(add.Y); isS {
						if _, isP := subj.(*ssa.Parameter); isP {
							e.name = nm
							uris := map[string]bool{}
							stringConstsBehind(add.X, 0, map[ssa.Value]bool{}, uris)
							var vs []string
							for u := range uris {
								if strings.HasPrefix(u, "http") {
									vs = append(vs, normURI(u))
								}
							}
							if len(vs) > 0 {
								same := true
								for _, u := range vs {
									if u != vs[0] {
										same = false
									}
								}
								if same {
									e.vocabURI = vs[0]
								} else {
									e.problems = append(e.problems, "the alias prefix of this branch mixes vocabularies: "+strings.Join(vs, ", "))
								}
							}
						}
					}
				}
			}
			if e.name == "" || e.vocabURI == "" {
				e.problems = append(e.problems, "the branch is not governed by a comparison of the value's vocabulary and type name with constants")
			}
			out = append(out, e)
		}
	}
	return out
}

func extractOf2(v ssa.Value, i int) *ssa.Extract {
	for _, r := range *v.Referrers() {
		if ex, ok := r.(*ssa.Extract); ok && ex.Index == i {
			return ex
		}
	}
	return nil
}

// ssaEntriesFor converts the SSA reading into the entries the dispatch-table rule judges. ok is
// false when the SSA reading itself has gaps (then the statement-form findings stand).
func ssaEntriesFor(S *Streams, typ, method string, closure bool, ifaceOf map[*types.Named]*GenType, mgrMethod map[*types.Func]*GenType) ([]*dispatchEntry, bool) {
	sp := loadStreamsRootSSA()
	if sp == nil {
		return nil, false
	}
	fn := methodOf(sp, typ, method)
	if fn == nil {
		return nil, false
	}
	var ds []*ssaDispatch
	if closure {
		for _, an := range fn.AnonFuncs {
			ds = append(ds, dispatchBySSA(an)...)
		}
	} else {
		ds = dispatchBySSA(fn)
	}
	if len(ds) == 0 {
		return nil, false
	}
	byName := map[string]*types.Named{}
	for n := range ifaceOf {
		byName[n.Obj().Name()] = n
	}
	deserByName := map[string]*types.Func{}
	for f := range mgrMethod {
		deserByName[f.Name()] = f
	}
	var out []*dispatchEntry
	for _, d := range ds {
		if len(d.problems) > 0 {
			return nil, false
		}
		e := &dispatchEntry{vocabURI: d.vocabURI, name: d.name, cbType: byName[d.cbParam], valType: byName[d.valType], pos: d.pos}
		if d.deser != "" {
			e.deser = deserByName[d.deser]
			if e.deser == nil {
				return nil, false
			}
		}
		if e.cbType == nil || e.valType == nil {
			return nil, false
		}
		out = append(out, e)
	}
	return out, true
}

// checkResolverTailSSA: the clauses of C14-R2 that do not depend on the statement form, for a
// resolver whose body the statement-form reader did not recognise: the result of the callback is
// what the branch returns, and the documented sentinels are what the other exits return.
func checkResolverTailSSA(res *Result, S *Streams, typ, method string) {
	sp := loadStreamsRootSSA()
	fn := methodOf(sp, typ, method)
	if fn == nil {
		return
	}
	which := typ + "." + method
	pos := func(p interface{ Pos() token.Pos }) string { return relPos(sp.Prog.Fset, p.Pos()) }
	fns := []*ssa.Function{fn}
	fns = append(fns, fn.AnonFuncs...)
	sentinels := map[string]bool{}
	nCalls, nReturned := 0, 0
	for _, f := range fns {
		for _, b := range f.Blocks {
			for _, ins := range b.Instrs {
				switch x := ins.(type) {
				case *ssa.Return:
					for _, rv := range x.Results {
						if ld, ok := rv.(*ssa.UnOp); ok {
							if g, ok := ld.X.(*ssa.Global); ok {
								sentinels[g.Name()] = true
							}
						}
						if ph, ok := rv.(*ssa.Phi); ok {
							for _, e := range ph.Edges {
								if ld, ok := e.(*ssa.UnOp); ok {
									if g, ok := ld.X.(*ssa.Global); ok {
										sentinels[g.Name()] = true
									}
								}
							}
						}
					}
				case *ssa.Call:
					if x.Common().IsInvoke() || x.Common().StaticCallee() != nil {
						continue
					}
					fex, ok := x.Common().Value.(*ssa.Extract)
					if !ok {
						continue
					}
					if _, ok := fex.Tuple.(*ssa.TypeAssert); !ok {
						continue
					}
					nCalls++
					// the call's result (or its components) is what is returned / merged into the results
					used := false
					for _, r := range *x.Referrers() {
						switch y := r.(type) {
						case *ssa.Return:
							used = true
						case *ssa.Extract:
							for _, rr := range *y.Referrers() {
								switch rr.(type) {
								case *ssa.Return, *ssa.Phi:
									used = true
								}
							}
						case *ssa.Phi:
							used = true
						}
					}
					if used {
						nReturned++
					}
				}
			}
		}
	}
	res.check(nCalls > 0 && nCalls == nReturned, "C14-R2", which, pos(fn), "the result of the callback invoked is what the branch yields (unchanged)", "some callback results are not passed on")
	// sentinel discipline at the exits: what a return yields is decided by which assertion is
	// known to have failed there
	globalOf := func(ff *FuncFacts, r *ssa.Return, v ssa.Value) string {
		v = ff.resolve(r, v)
		if ld, ok := v.(*ssa.UnOp); ok {
			if g, ok := ld.X.(*ssa.Global); ok {
				return g.Name()
			}
		}
		return valueLabel(v)
	}
	for _, f := range fns {
		ff := computeFacts(f)
		var cbAsserts, valAsserts []*ssa.Extract
		for _, b := range f.Blocks {
			for _, ins := range b.Instrs {
				ta, ok := ins.(*ssa.TypeAssert)
				if !ok || !ta.CommaOk {
					continue
				}
				okx := extractOf2(ta, 1)
				if okx == nil {
					continue
				}
				if _, isSig := ta.AssertedType.Underlying().(*types.Signature); isSig {
					cbAsserts = append(cbAsserts, okx)
				} else if _, isP := ta.X.(*ssa.Parameter); isP {
					if _, isI := ta.AssertedType.Underlying().(*types.Interface); isI {
						valAsserts = append(valAsserts, okx)
					}
				}
			}
		}
		nPU, nCA := 0, 0
		for _, r := range returnsIn(f) {
			st := ff.at[r]
			if st == nil || len(r.Results) == 0 {
				continue
			}
			errName := globalOf(ff, r, r.Results[len(r.Results)-1])
			for _, okx := range valAsserts {
				if st.facts[fact{ff.canon(st, okx), fFALSE, ""}] {
					nCA++
					res.check(errName == "errCannotTypeAssertType", "C14-R2", which, pos(r), "a value that does not satisfy its own type's interface yields errCannotTypeAssertType", "this exit yields "+errName)
				}
			}
			if method == "Apply" {
				for _, okx := range cbAsserts {
					if st.facts[fact{ff.canon(st, okx), fFALSE, ""}] {
						nPU++
						res.check(errName == "ErrPredicateUnmatched", "C14-R2", which, pos(r), "a predicate for another type yields ErrPredicateUnmatched", "this exit yields "+errName)
					}
				}
			}
		}
		if len(valAsserts) > 0 {
			res.check(nCA >= len(valAsserts), "C14-R2", which, pos(f), "every value assertion has an exit for its failure", fmt.Sprintf("%d assertions, %d failure exits", len(valAsserts), nCA))
		}
		if method == "Apply" && len(cbAsserts) > 0 {
			res.check(nPU >= len(cbAsserts), "C14-R2", which, pos(f), "every predicate assertion has an exit for its failure", fmt.Sprintf("%d assertions, %d failure exits", len(cbAsserts), nPU))
		}
	}
	// JSONResolver: a multi-valued 'type' moves on to the next string only on ErrUnhandledType
	if typ == "JSONResolver" {
		ff := computeFacts(fn)
		nLoopCalls := 0
		for _, b := range fn.Blocks {
			for _, ins := range b.Instrs {
				c, ok := ins.(*ssa.Call)
				if !ok || c.Common().IsInvoke() {
					continue
				}
				// the per-string dispatch: a call of the method's own closure
				if callee := c.Common().StaticCallee(); callee == nil || callee.Parent() != fn {
					continue
				}
				loop := loopBlocks(c.Block())
				if len(loop) == 0 {
					continue
				}
				H := loopHeader(loop)
				if H == nil {
					continue
				}
				nLoopCalls++
				// comparisons of the call's result with ErrUnhandledType
				var cmps []*ssa.BinOp
				for _, bb := range fn.Blocks {
					for _, i2 := range bb.Instrs {
						bo, ok := i2.(*ssa.BinOp)
						if !ok || (bo.Op != token.EQL && bo.Op != token.NEQ) {
							continue
						}
						isRes := func(v ssa.Value) bool { return v == ssa.Value(c) }
						isUnh := func(v ssa.Value) bool {
							ld, ok := v.(*ssa.UnOp)
							if !ok {
								return false
							}
							g, ok := ld.X.(*ssa.Global)
							return ok && g.Name() == "ErrUnhandledType"
						}
						if (isRes(bo.X) && isUnh(bo.Y)) || (isRes(bo.Y) && isUnh(bo.X)) {
							cmps = append(cmps, bo)
						}
					}
				}
				okAll := len(cmps) > 0
				// the region in which this string's dispatch has happened is what the call's block
				// dominates; leaving it for the rest of the loop is "trying the next string"
				dom := c.Block()
				for lb := range loop {
					if !dom.Dominates(lb) {
						continue
					}
					for _, sc := range lb.Succs {
						if !loop[sc] || (dom.Dominates(sc) && sc != H) {
							continue
						}
						var st *factState
						if es := ff.edgeIn[sc]; len(es) == len(sc.Preds) {
							for i, pr := range sc.Preds {
								if pr == lb {
									st = es[i]
								}
							}
						}
						if st == nil {
							st = ff.at[lb.Instrs[len(lb.Instrs)-1]]
						}
						if st == nil {
							continue // infeasible
						}
						hit := false
						for _, bo := range cmps {
							want := fTRUE // `err == ErrUnhandledType` known true, or `err != …` known false
							if bo.Op == token.NEQ {
								want = fFALSE
							}
							if st.facts[fact{ff.canon(st, bo), want, ""}] {
								hit = true
							}
						}
						if !hit {
							okAll = false
						}
					}
				}
				res.check(okAll, "C14-R2", which, pos(c), "for a 'type' array the next string is tried only where the previous one gave ErrUnhandledType", "the loop goes on to the next type string on another condition (a matched type whose callback failed, or a missing callback, would be skipped over)")
			}
		}
		res.check(nLoopCalls >= 1, "C14-R2", which, pos(fn), "a 'type' array is handled by trying its strings in a loop", "no per-string dispatch inside a loop")
	}
	want := []string{"ErrUnhandledType"}
	switch method {
	case "Apply":
		want = append(want, "ErrPredicateUnmatched", "errCannotTypeAssertType")
	default:
		want = append(want, "ErrNoCallbackMatch")
	}
	for _, w := range want {
		res.check(sentinels[w], "C14-R2", which, pos(fn), "an exit yields "+w, "no return of "+w)
	}
}
