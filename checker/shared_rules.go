package main

import (
	"fmt"
	"go/ast"
	"go/types"
	"strings"
)

// Rules whose mechanism several properties rely on, applied under each property's own id.

// checkActivityPredicate: deliver wraps a value in a Create unless
// streams.IsOrExtendsActivityStreamsActivity says it is an activity; that predicate must hold for
// exactly Activity and its descendants in the ontology (shared with C13-R3).
func checkActivityPredicate(res *Result, rule string) {
	O := loadOntology()
	S := loadStreams()
	pe := &predEval{S: S, memo: map[*ast.FuncDecl]*predResult{}}
	for _, g := range S.Types {
		if g.Name != "Activity" {
			continue
		}
		preds, _ := typePredicates(g)
		fd := preds[kIsOr]
		if fd == nil {
			res.undecided(rule, "Activity", "-", "IsOrExtendsActivity found", "missing")
			return
		}
		r := pe.eval(g.Pkg, fd)
		if r.problem != "" {
			if r2 := pe.evalSSA(g.Pkg, fd, 0); r2.problem == "" {
				r = r2
			}
		}
		if r.problem != "" {
			res.undecided(rule, "Activity", S.pos(fd), "IsOrExtendsActivity has a computable denotation", r.problem)
			return
		}
		want := map[string]bool{"Activity": true}
		for d := range O.Desc("Activity") {
			want[d] = true
		}
		missing, extra := setDiff(want, r.names)
		res.check(len(missing) == 0 && len(extra) == 0, rule, "Activity", S.pos(fd), fmt.Sprintf("a posted value is wrapped in a Create exactly when it is not an activity: IsOrExtendsActivity holds for Activity and its %d descendants", len(want)-1), fmt.Sprintf("activity types the predicate misses (such a value would be wrapped in a Create): %v; non-activities it accepts: %v", missing, extra))
		return
	}
	res.undecided(rule, "Activity", "-", "generated type Activity found", "missing")
}

// checkHiddenClaimed: every type that has bto / bcc claims those members (in the spelling its
// property reads them): a type that does not keeps the raw member among its unknown members and
// writes it back after the strip cleared the typed property.
func checkHiddenClaimed(res *Result, rule string) {
	M := loadGenModel()
	n := 0
	var bad []string
	for _, tm := range M.Types {
		tt := extractTypeTables(M, tm)
		for _, pm := range tm.Fields {
			if pm.Name != "bto" && pm.Name != "bcc" {
				continue
			}
			n++
			if !tt.claimed[pm.Name] {
				bad = append(bad, tm.G.Name+"."+pm.Name)
			}
		}
	}
	res.Count(rule+" (type, bto/bcc) pairs", n, 80)
	res.check(len(bad) == 0, rule, "streams/impl", "-", "every type with bto / bcc claims the member as known (it is kept only in its typed property)", "not claimed: "+strings.Join(bad, ", ")+" — the raw member is also kept as an unknown member and written back after stripHiddenRecipients / clearSensitiveFields cleared the property")
}

var _ = types.Universe
