package main

import (
	"fmt"
	"go/ast"
	"go/token"
	"go/types"
	"golang.org/x/tools/go/ssa"
	"sort"
	"strings"
)

// Rules whose mechanism several properties rely on, applied under each property's own id.

// checkActivityPredicate: deliver wraps a value in a Create unless
// streams.IsOrExtendsActivityStreamsActivity says it is an activity; that predicate must hold for
// exactly Activity and its descendants in the ontology (shared with C13-R3).
func checkActivityPredicate(res *Result, rule string) {
	O := loadOntology()
	S := loadStreams()
	pe := &predEval{S: S, memo: map[*ast.FuncDecl]*predResult{}}
	for _, g := range S.Types {
		if g.Name != "Activity" {
			continue
		}
		preds, _ := typePredicates(g)
		fd := preds[kIsOr]
		if fd == nil {
			res.undecided(rule, "Activity", "-", "IsOrExtendsActivity found", "missing")
			return
		}
		r := pe.eval(g.Pkg, fd)
		if r.problem != "" {
			if r2 := pe.evalSSA(g.Pkg, fd, 0); r2.problem == "" {
				r = r2
			}
		}
		if r.problem != "" {
			res.undecided(rule, "Activity", S.pos(fd), "IsOrExtendsActivity has a computable denotation", r.problem)
			return
		}
		want := map[string]bool{"Activity": true}
		for d := range O.Desc("Activity") {
			want[d] = true
		}
		missing, extra := setDiff(want, r.names)
		res.check(len(missing) == 0 && len(extra) == 0, rule, "Activity", S.pos(fd), fmt.Sprintf("a posted value is wrapped in a Create exactly when it is not an activity: IsOrExtendsActivity holds for Activity and its %d descendants", len(want)-1), fmt.Sprintf("activity types the predicate misses (such a value would be wrapped in a Create): %v; non-activities it accepts: %v", missing, extra))
		return
	}
	res.undecided(rule, "Activity", "-", "generated type Activity found", "missing")
}

// checkHiddenClaimed: every type that has bto / bcc claims those members (in the spelling its
// property reads them): a type that does not keeps the raw member among its unknown members and
// writes it back after the strip cleared the typed property.
func checkHiddenClaimed(res *Result, rule string) {
	M := loadGenModel()
	n := 0
	var bad []string
	for _, tm := range M.Types {
		tt := extractTypeTables(M, tm)
		for _, pm := range tm.Fields {
			if pm.Name != "bto" && pm.Name != "bcc" {
				continue
			}
			n++
			if !tt.claimed[pm.Name] {
				bad = append(bad, tm.G.Name+"."+pm.Name)
			} else if u := tt.claimedVocab[pm.Name]; u != "" && normURI(u) != normURI(pm.VocabURI) {
				bad = append(bad, tm.G.Name+"."+pm.Name+" (claimed under the alias of another vocabulary)")
			}
		}
	}
	res.Count(rule+" (type, bto/bcc) pairs", n, 80)
	res.check(len(bad) == 0, rule, "streams/impl", "-", "every type with bto / bcc claims the member as known (it is kept only in its typed property)", "not claimed: "+strings.Join(bad, ", ")+" — the raw member is also kept as an unknown member and written back after stripHiddenRecipients / clearSensitiveFields cleared the property")
}

var _ = types.Universe

// checkDecodedContainers: the deserialiser of every non-functional property leaves each decoded
// element with parent == the container and myIdx == its position (C18-R1's interpreter applied
// to the decoders only). C11 relies on it (Next/Prev of a decoded iterator call parent.Len():
// a nil parent is a panic reachable from a request body), C12 relies on it (the list seen
// through Begin/Next is the document's list).
func checkDecodedContainers(res *Result, rule, why string) {
	M := loadGenModel()
	S := M.S
	n := 0
	for _, pm := range M.Props {
		if len(pm.Problems) > 0 || pm.Functional || pm.PropDeser == nil {
			continue
		}
		n++
		cn := pm.Container.Obj().Name()
		methods := map[string]*ast.FuncDecl{}
		for mn, mfd := range pm.G.Funcs {
			if strings.HasPrefix(mn, "("+cn+").") {
				methods[strings.TrimPrefix(mn, "("+cn+").")] = mfd
			}
		}
		exits, und := interpretContainerMethod(pm.G.Pkg.TypesInfo, pm.PropDeser, methods)
		key := rule + "|" + pm.G.Dir + "|deserialize"
		desc := "every element decoded from a document has parent == its container and myIdx == its position"
		switch {
		case len(und) > 0:
			res.Add(Oblig{Rule: rule, Func: pm.G.Dir, Pos: S.pos(pm.PropDeser), Key: key, Desc: desc, Verdict: UNDECIDED, Detail: strings.Join(und, "; ")})
		case len(exits) > 0:
			res.Add(Oblig{Rule: rule, Func: pm.G.Dir, Pos: S.pos(pm.PropDeser), Key: key, Desc: desc, Verdict: VIOLATION, Detail: "positions possibly left with a stale or nil myIdx/parent at an exit: " + strings.Join(exits, " | ") + " — " + why})
		default:
			res.Add(Oblig{Rule: rule, Func: pm.G.Dir, Pos: S.pos(pm.PropDeser), Key: key, Desc: desc, Verdict: OK})
		}
	}
	res.Count(rule+" decoders of non-functional properties", n, 42)
}

// checkMembersDecoded: for every generated type that has one of the named properties, the member
// is decoded (deserialiser called and its result stored in the field) and claimed. The pub
// mechanisms read documents only through these typed properties: a type whose decoder skips one
// hands pub a value on which the member is simply absent.
func checkMembersDecoded(res *Result, rule string, names []string, why string) {
	M := loadGenModel()
	want := map[string]bool{}
	for _, n := range names {
		want[n] = true
	}
	n := 0
	var bad []string
	for _, tm := range M.Types {
		tt := extractTypeTables(M, tm)
		for _, pm := range tm.Fields {
			if !want[pm.Name] {
				continue
			}
			n++
			if !tt.deser[pm.key()] || !tt.assigned[pm.key()] {
				bad = append(bad, tm.G.Name+"."+pm.Name+" (not decoded)")
			} else if !tt.claimed[pm.Name] {
				bad = append(bad, tm.G.Name+"."+pm.Name+" (not claimed)")
			}
		}
	}
	sort.Strings(bad)
	res.Count(rule+" (type, member) pairs", n, len(names))
	res.check(len(bad) == 0, rule, "streams/impl", "-", fmt.Sprintf("every type decodes and claims its %s member(s) (%d type/member pairs)", strings.Join(names, ", "), n), strings.Join(bad, ", ")+" — "+why)
}

// checkOutboxAfterCallbacks: in sideEffectActor.PostOutbox the activity is stored and listed only
// after the side-effect callbacks have been dispatched and have succeeded — no callback dispatch
// (SocialCallbacks, the resolver's Resolve) can still execute after addToOutbox. An activity the
// default callbacks refuse (ErrObjectRequired / ErrTargetRequired ⇒ 400) must change nothing.
func checkOutboxAfterCallbacks(res *Result, p *Pub, E *Effects, rule string) {
	fn := p.MustFunc(res, rule, "sideEffectActor.PostOutbox")
	if fn == nil {
		return
	}
	stores := findCalls(E, fn, "sideEffectActor.addToOutbox")
	var dispatch []ssa.CallInstruction
	for _, ci := range callsIn(fn) {
		cc := ci.Common()
		if cc.IsInvoke() && (cc.Method.Name() == "SocialCallbacks" || cc.Method.Name() == "Resolve") {
			dispatch = append(dispatch, ci)
		} else if f := cc.StaticCallee(); f != nil && f.Name() == "Resolve" {
			dispatch = append(dispatch, ci)
		}
	}
	res.check(len(stores) >= 1 && len(dispatch) >= 2, rule, fname(fn), p.pos(fn), "PostOutbox dispatches to the callbacks and stores the activity", fmt.Sprintf("%d addToOutbox calls, %d dispatch calls", len(stores), len(dispatch)))
	for _, st := range stores {
		bad := ""
		for _, d := range dispatch {
			if reachesInstr(st, d) {
				bad = p.pos(d)
			}
		}
		res.check(bad == "", rule, fname(fn), p.pos(st), "the activity is stored and listed only after the callbacks ran (nothing is dispatched after addToOutbox)", "the callback dispatch at "+bad+" can still run after the activity was stored: an activity a callback refuses (missing object or target ⇒ 400) has already been created and listed in the outbox")
	}
}

// derivedFromByGetters: v is root, or read out of root through getters only (Get…, Begin, Next,
// Prev, At, End), interface conversions / assertions and merges — i.e. v is (part of) the very
// value root denotes, not a new value root was put into.
func derivedFromByGetters(v ssa.Value, root ssa.Value, seen map[ssa.Value]bool, depth int) bool {
	if v == root {
		return true
	}
	if depth > 12 || seen[v] {
		return false
	}
	seen[v] = true
	switch x := v.(type) {
	case *ssa.Call:
		cc := x.Common()
		if cc.IsInvoke() {
			n := cc.Method.Name()
			if strings.HasPrefix(n, "Get") || n == "Begin" || n == "Next" || n == "Prev" || n == "At" {
				return derivedFromByGetters(cc.Value, root, seen, depth+1)
			}
		}
	case *ssa.TypeAssert:
		return derivedFromByGetters(x.X, root, seen, depth+1)
	case *ssa.ChangeInterface:
		return derivedFromByGetters(x.X, root, seen, depth+1)
	case *ssa.MakeInterface:
		return derivedFromByGetters(x.X, root, seen, depth+1)
	case *ssa.Extract:
		return derivedFromByGetters(x.Tuple, root, seen, depth+1)
	case *ssa.Phi:
		for _, e := range x.Edges {
			if derivedFromByGetters(e, root, seen, depth+1) {
				return true
			}
		}
	case *ssa.UnOp:
		// load of a closure's captured variable or a spilled local
		if x.Op == token.MUL {
			if al, ok := x.X.(*ssa.Alloc); ok {
				for _, ref := range *al.Referrers() {
					if st, ok := ref.(*ssa.Store); ok && st.Addr == ssa.Value(al) && derivedFromByGetters(st.Val, root, seen, depth+1) {
						return true
					}
				}
			}
		}
	}
	return false
}

// checkCallbacksLeaveActivity: the default federating callbacks read the activity they are handed
// and never write into it (or into a value read out of it): the same value is afterwards
// serialised for forwarding, and the forwarded payload must have the members that were received.
func checkCallbacksLeaveActivity(res *Result, p *Pub, rule string) {
	n := 0
	for _, fn := range p.Funcs {
		root := fn
		for root.Parent() != nil {
			root = root.Parent()
		}
		if !strings.HasPrefix(fname(root), "FederatingWrappedCallbacks.") || root.Signature.Recv() == nil {
			continue
		}
		// the activity parameter of the callback (second parameter after the context), also as
		// seen from its closures
		if len(root.Params) < 3 || !isVocabIface(root.Params[2].Type()) {
			continue
		}
		act := root.Params[2]
		var roots []ssa.Value
		if fn == root {
			roots = append(roots, act)
		} else {
			for _, fv := range fn.FreeVars {
				if fv.Name() == act.Name() {
					roots = append(roots, fv)
				}
			}
			// a closure called per element with the element as argument: a parameter that receives,
			// at some call in the callback, a value read out of the activity is a root as well
			for _, ci := range callsIn(root) {
				cc := ci.Common()
				if cc.IsInvoke() {
					continue
				}
				callee := cc.StaticCallee()
				if callee != fn {
					continue
				}
				for ai, a := range cc.Args {
					if ai < len(fn.Params) && derivedFromByGetters(a, act, map[ssa.Value]bool{}, 0) {
						roots = append(roots, fn.Params[ai])
					}
				}
			}
		}
		if len(roots) == 0 {
			continue
		}
		n++
		for _, ci := range callsIn(fn) {
			cc := ci.Common()
			if !cc.IsInvoke() || !isMutatorName(cc.Method.Name()) || !isVocabIface(cc.Value.Type()) {
				continue
			}
			for _, r := range roots {
				if derivedFromByGetters(cc.Value, r, map[ssa.Value]bool{}, 0) {
					res.bad(rule, fname(fn), p.pos(ci), "the received activity is not modified by the default callbacks", cc.Method.Name()+" is called on a value read out of the activity the callback was handed: the same value is serialised afterwards for forwarding, so what is forwarded is no longer what was received")
				}
			}
		}
	}
	res.Count(rule+" federating callbacks (and closures) examined", n, 10)
	res.ok(rule, "FederatingWrappedCallbacks", "-", "callbacks examined for writes into the received activity")
}

// checkFreshDecodeTargets: every json.Unmarshal in package pub decodes into a variable that is
// fresh for that decode: a local of the function activation doing the decode and — if the decode
// sits in a loop — declared inside the loop body. json.Unmarshal into a non-nil map keeps the
// entries already there: a target shared between decodes (a variable captured by the per-element
// closure, a field, a variable declared before the loop) lets members of one fetched document
// show up in the next.
func checkFreshDecodeTargets(res *Result, p *Pub, rule string) {
	n := 0
	for _, fn := range p.Funcs {
		for _, ci := range callsIn(fn) {
			cc := ci.Common()
			f := cc.StaticCallee()
			if f == nil || f.Pkg == nil || f.Pkg.Pkg.Path() != "encoding/json" || f.Name() != "Unmarshal" || len(cc.Args) != 2 {
				continue
			}
			n++
			target := unwrap(cc.Args[1])
			al, isAlloc := target.(*ssa.Alloc)
			why := ""
			switch {
			case !isAlloc:
				why = "the target is " + valueLabel(target) + ", which outlives this decode (captured variable, field or parameter)"
			case al.Parent() != fn:
				why = "the target belongs to another function activation"
			default:
				if loop := loopBlocks(ci.Block()); len(loop) > 0 && !loop[al.Block()] {
					why = "the target is declared before the loop the decode sits in"
				}
			}
			res.check(why == "", rule, fname(fn), p.pos(ci), "json.Unmarshal decodes into a variable that is fresh for this decode", why+": json.Unmarshal keeps the entries of a non-nil map, so members of a document decoded earlier are attributed to this one")
		}
	}
	res.Count(rule+" json.Unmarshal sites in pub", n, 5)
}
