package main

import (
	"fmt"
	"go/ast"
	"go/types"
	"sort"
	"strings"
)

// Rules whose mechanism several properties rely on, applied under each property's own id.

// checkActivityPredicate: deliver wraps a value in a Create unless
// streams.IsOrExtendsActivityStreamsActivity says it is an activity; that predicate must hold for
// exactly Activity and its descendants in the ontology (shared with C13-R3).
func checkActivityPredicate(res *Result, rule string) {
	O := loadOntology()
	S := loadStreams()
	pe := &predEval{S: S, memo: map[*ast.FuncDecl]*predResult{}}
	for _, g := range S.Types {
		if g.Name != "Activity" {
			continue
		}
		preds, _ := typePredicates(g)
		fd := preds[kIsOr]
		if fd == nil {
			res.undecided(rule, "Activity", "-", "IsOrExtendsActivity found", "missing")
			return
		}
		r := pe.eval(g.Pkg, fd)
		if r.problem != "" {
			if r2 := pe.evalSSA(g.Pkg, fd, 0); r2.problem == "" {
				r = r2
			}
		}
		if r.problem != "" {
			res.undecided(rule, "Activity", S.pos(fd), "IsOrExtendsActivity has a computable denotation", r.problem)
			return
		}
		want := map[string]bool{"Activity": true}
		for d := range O.Desc("Activity") {
			want[d] = true
		}
		missing, extra := setDiff(want, r.names)
		res.check(len(missing) == 0 && len(extra) == 0, rule, "Activity", S.pos(fd), fmt.Sprintf("a posted value is wrapped in a Create exactly when it is not an activity: IsOrExtendsActivity holds for Activity and its %d descendants", len(want)-1), fmt.Sprintf("activity types the predicate misses (such a value would be wrapped in a Create): %v; non-activities it accepts: %v", missing, extra))
		return
	}
	res.undecided(rule, "Activity", "-", "generated type Activity found", "missing")
}

// checkHiddenClaimed: every type that has bto / bcc claims those members (in the spelling its
// property reads them): a type that does not keeps the raw member among its unknown members and
// writes it back after the strip cleared the typed property.
func checkHiddenClaimed(res *Result, rule string) {
	M := loadGenModel()
	n := 0
	var bad []string
	for _, tm := range M.Types {
		tt := extractTypeTables(M, tm)
		for _, pm := range tm.Fields {
			if pm.Name != "bto" && pm.Name != "bcc" {
				continue
			}
			n++
			if !tt.claimed[pm.Name] {
				bad = append(bad, tm.G.Name+"."+pm.Name)
			} else if u := tt.claimedVocab[pm.Name]; u != "" && normURI(u) != normURI(pm.VocabURI) {
				bad = append(bad, tm.G.Name+"."+pm.Name+" (claimed under the alias of another vocabulary)")
			}
		}
	}
	res.Count(rule+" (type, bto/bcc) pairs", n, 80)
	res.check(len(bad) == 0, rule, "streams/impl", "-", "every type with bto / bcc claims the member as known (it is kept only in its typed property)", "not claimed: "+strings.Join(bad, ", ")+" — the raw member is also kept as an unknown member and written back after stripHiddenRecipients / clearSensitiveFields cleared the property")
}

var _ = types.Universe

// checkDecodedContainers: the deserialiser of every non-functional property leaves each decoded
// element with parent == the container and myIdx == its position (C18-R1's interpreter applied
// to the decoders only). C11 relies on it (Next/Prev of a decoded iterator call parent.Len():
// a nil parent is a panic reachable from a request body), C12 relies on it (the list seen
// through Begin/Next is the document's list).
func checkDecodedContainers(res *Result, rule, why string) {
	M := loadGenModel()
	S := M.S
	n := 0
	for _, pm := range M.Props {
		if len(pm.Problems) > 0 || pm.Functional || pm.PropDeser == nil {
			continue
		}
		n++
		cn := pm.Container.Obj().Name()
		methods := map[string]*ast.FuncDecl{}
		for mn, mfd := range pm.G.Funcs {
			if strings.HasPrefix(mn, "("+cn+").") {
				methods[strings.TrimPrefix(mn, "("+cn+").")] = mfd
			}
		}
		exits, und := interpretContainerMethod(pm.G.Pkg.TypesInfo, pm.PropDeser, methods)
		key := rule + "|" + pm.G.Dir + "|deserialize"
		desc := "every element decoded from a document has parent == its container and myIdx == its position"
		switch {
		case len(und) > 0:
			res.Add(Oblig{Rule: rule, Func: pm.G.Dir, Pos: S.pos(pm.PropDeser), Key: key, Desc: desc, Verdict: UNDECIDED, Detail: strings.Join(und, "; ")})
		case len(exits) > 0:
			res.Add(Oblig{Rule: rule, Func: pm.G.Dir, Pos: S.pos(pm.PropDeser), Key: key, Desc: desc, Verdict: VIOLATION, Detail: "positions possibly left with a stale or nil myIdx/parent at an exit: " + strings.Join(exits, " | ") + " — " + why})
		default:
			res.Add(Oblig{Rule: rule, Func: pm.G.Dir, Pos: S.pos(pm.PropDeser), Key: key, Desc: desc, Verdict: OK})
		}
	}
	res.Count(rule+" decoders of non-functional properties", n, 42)
}

// checkMembersDecoded: for every generated type that has one of the named properties, the member
// is decoded (deserialiser called and its result stored in the field) and claimed. The pub
// mechanisms read documents only through these typed properties: a type whose decoder skips one
// hands pub a value on which the member is simply absent.
func checkMembersDecoded(res *Result, rule string, names []string, why string) {
	M := loadGenModel()
	want := map[string]bool{}
	for _, n := range names {
		want[n] = true
	}
	n := 0
	var bad []string
	for _, tm := range M.Types {
		tt := extractTypeTables(M, tm)
		for _, pm := range tm.Fields {
			if !want[pm.Name] {
				continue
			}
			n++
			if !tt.deser[pm.key()] || !tt.assigned[pm.key()] {
				bad = append(bad, tm.G.Name+"."+pm.Name+" (not decoded)")
			} else if !tt.claimed[pm.Name] {
				bad = append(bad, tm.G.Name+"."+pm.Name+" (not claimed)")
			}
		}
	}
	sort.Strings(bad)
	res.Count(rule+" (type, member) pairs", n, len(names))
	res.check(len(bad) == 0, rule, "streams/impl", "-", fmt.Sprintf("every type decodes and claims its %s member(s) (%d type/member pairs)", strings.Join(names, ", "), n), strings.Join(bad, ", ")+" — "+why)
}
