package main

import (
	"fmt"
	"go/constant"
	"go/token"

	"golang.org/x/tools/go/ssa"
)

// Lossless container handling in two hand-written/generated helpers whose loops
// the table rules do not see: every entry of the ranged map must be recorded
// (or the function must fail); nothing may be skipped silently.

// derivesFromNext: v is computed from the key/value delivered by this range.
func derivesFromNext(v ssa.Value, nx *ssa.Next, depth int) bool {
	if depth > 6 || v == nil {
		return false
	}
	switch x := v.(type) {
	case *ssa.Extract:
		if x.Tuple == ssa.Value(nx) {
			return true
		}
		return derivesFromNext(x.Tuple, nx, depth+1)
	case *ssa.TypeAssert:
		return derivesFromNext(x.X, nx, depth+1)
	case *ssa.MakeInterface:
		return derivesFromNext(x.X, nx, depth+1)
	case *ssa.ChangeType:
		return derivesFromNext(x.X, nx, depth+1)
	case *ssa.Phi:
		for _, e := range x.Edges {
			if derivesFromNext(e, nx, depth+1) {
				return true
			}
		}
	}
	return false
}

// checkRangeTotal: for every `range` over a map in fn (filtered by want), every
// way round the loop passes through an instruction that records the entry: a
// map update, an append, or a conversion of the entry into the result value.
func checkRangeTotal(res *Result, rule, fnLabel string, fn *ssa.Function, pos func(interface{ Pos() token.Pos }) string, desc, consequence string) int {
	n := 0
	for _, b := range fn.Blocks {
		for _, ins := range b.Instrs {
			nx, ok := ins.(*ssa.Next)
			if !ok || nx.IsString {
				continue
			}
			loop := loopBlocks(b)
			if len(loop) == 0 {
				continue
			}
			H := loopHeader(loop)
			if H == nil {
				continue
			}
			n++
			rec := map[*ssa.BasicBlock]bool{}
			for lb := range loop {
				for _, i2 := range lb.Instrs {
					switch x := i2.(type) {
					case *ssa.MapUpdate:
						if derivesFromNext(x.Key, nx, 0) || derivesFromNext(x.Value, nx, 0) {
							rec[lb] = true
						}
					case *ssa.MakeInterface:
						if derivesFromNext(x.X, nx, 0) {
							rec[lb] = true
						}
					case *ssa.Store:
						if derivesFromNext(x.Val, nx, 0) {
							rec[lb] = true
						}
					}
				}
			}
			trail, bad := lapAvoiding(loop, H, rec)
			res.check(!bad, rule, fnLabel, pos(nx), desc, fmt.Sprintf("the lap through blocks %v goes on to the next entry without recording this one: %s", trail, consequence))
		}
	}
	return n
}

func checkC01Totality(res *Result) {
	// R7: language maps
	res.Rule("C01-R7", "the rdf:langString reader records every entry of a language map or fails: no entry is skipped (a skipped entry is neither interpreted nor kept as unknown — it is dropped)")
	if sp := loadValuesSSA()["langstring"]; sp == nil {
		res.undecided("C01-R7", "values/langString", "-", "langString codec in SSA form", "package not built")
	} else if fn := sp.Func("DeserializeLangString"); fn == nil {
		res.undecided("C01-R7", "values/langString", "-", "DeserializeLangString found", "missing")
	} else {
		pos := func(p interface{ Pos() token.Pos }) string { return relPos(fn.Prog.Fset, p.Pos()) }
		n := checkRangeTotal(res, "C01-R7", "values/langString", fn, pos, "every entry of the language map reaches the result (or the reader fails)", "a non-string entry such as {\"fr\": null} disappears from the document on a round trip")
		res.Count("C01-R7 range loops in DeserializeLangString", n, 1)
	}
	// R8: @context
	res.Rule("C01-R8", "@context names exactly the vocabularies in use: in streams.Serialize the value stored under \"@context\" is built only from the entries of JSONLDContext() — no constant vocabulary is added — and every entry is recorded")
	sp := loadStreamsRootSSA()
	if sp == nil {
		res.undecided("C01-R8", "streams.Serialize", "-", "package streams in SSA form", "not built")
		return
	}
	fn := sp.Func("Serialize")
	if fn == nil {
		res.undecided("C01-R8", "streams.Serialize", "-", "function found", "missing")
		return
	}
	pos := func(p interface{ Pos() token.Pos }) string { return relPos(fn.Prog.Fset, p.Pos()) }
	n := checkRangeTotal(res, "C01-R8", "streams.Serialize", fn, pos, "every (vocabulary, alias) entry of JSONLDContext() is written into the @context value", "a vocabulary in use is missing from @context")
	res.Count("C01-R8 range loops over JSONLDContext()", n, 1)
	g := flowOf(fn)
	nCtx := 0
	for _, b := range fn.Blocks {
		for _, ins := range b.Instrs {
			mu, ok := ins.(*ssa.MapUpdate)
			if !ok {
				continue
			}
			if k, isS := stringConst(unwrap(mu.Key)); !isS || k != "@context" {
				continue
			}
			nCtx++
			var consts []string
			fromCtx := false
			strConst := func(v ssa.Value) {
				if c, ok := v.(*ssa.Const); ok && c.Value != nil && c.Value.Kind() == constant.String && constant.StringVal(c.Value) != "" {
					consts = append(consts, constant.StringVal(c.Value))
				}
			}
			back := g.backward(mu.Value)
			for v := range back {
				// the flow graph has no nodes for constants: look at the operands
				switch x := v.(type) {
				case *ssa.MakeInterface:
					strConst(x.X)
				case *ssa.Phi:
					for _, e := range x.Edges {
						strConst(e)
					}
				case *ssa.BinOp:
					strConst(x.X)
					strConst(x.Y)
				case *ssa.Convert:
					strConst(x.X)
				}
				if isCallNamed(v, "JSONLDContext") {
					fromCtx = true
				}
			}
			for _, bb := range fn.Blocks {
				for _, i2 := range bb.Instrs {
					switch x := i2.(type) {
					case *ssa.Store:
						for _, c := range containers(x.Addr) {
							if back[c] {
								strConst(x.Val)
							}
						}
					case *ssa.MapUpdate:
						if x == mu {
							continue
						}
						for _, c := range containers(x.Map) {
							if back[c] {
								strConst(x.Key)
								strConst(x.Value)
							}
						}
					}
				}
			}
			res.check(fromCtx, "C01-R8", "streams.Serialize", pos(mu), "the @context value is built from JSONLDContext()", "no flow from JSONLDContext() into the stored value")
			okDom := true
			for _, r := range returnsIn(fn) {
				// success returns only (the early return on a Serialize error precedes the store)
				if !mu.Block().Dominates(r.Block()) && r.Block() != mu.Block() {
					ffS := computeFacts(fn)
					if mn, _ := ffS.errStatus(r, 1); mn {
						okDom = false
					}
				}
			}
			res.check(okDom, "C01-R8", "streams.Serialize", pos(mu), "the rebuilt @context is installed on every successful return (whatever the serialised value carried)", "the store is conditional: a context read from a document (vocabularies declared but not used, or used but only declared in a nested object) is kept instead of the vocabularies in use")
			res.check(len(consts) == 0, "C01-R8", "streams.Serialize", pos(mu), "no constant vocabulary or alias is written into @context", fmt.Sprintf("the constant(s) %q flow into the @context value: a document that does not use that vocabulary names it all the same", consts))
		}
	}
	res.Count("C01-R8 stores under \"@context\"", nCtx, 1)
}
