package main

// C18 — property containers behave as plain sequences / single slots.
//
// R1: an abstract interpreter over the statements of every container method
//     tracks where the representation invariant
//        ∀i < len(properties): properties[i].myIdx == i ∧ properties[i].parent == this
//     may be broken ("dirty" index sets) and requires it restored at every exit.
// R2: every element holds exactly one representation: clear resets all of
//     them, each setter clears first and writes exactly its own member (and
//     flag), each composite literal fills at most one member with its own flag.

import (
	"fmt"
	"go/ast"
	"go/token"
	"go/types"
	"regexp"
	"sort"
	"strings"
)

// ---- R2 helpers

// setterMember: for an element method Set<X>(v) returns the member field it writes.
type elemMethods struct {
	setOf  map[string]*Member // X -> member (from Set<X>)
	isOf   map[string]*types.Var
	getOf  map[string]*types.Var
	fnames map[*types.Var]string
}

func elemStructName(pm *PropModel) string { return pm.Elem.Obj().Name() }

// assignedThisFields lists `this.F = expr` assignments in a block.
type fieldAssign struct {
	f   *types.Var
	rhs ast.Expr
	pos token.Pos
}

func thisAssigns(info *types.Info, body *ast.BlockStmt) []fieldAssign {
	var out []fieldAssign
	for _, st := range body.List {
		if as, ok := st.(*ast.AssignStmt); ok && len(as.Lhs) == 1 && len(as.Rhs) == 1 {
			if fv := thisField(info, as.Lhs[0]); fv != nil {
				out = append(out, fieldAssign{fv, as.Rhs[0], as.Pos()})
			}
		}
	}
	return out
}

func isZeroExpr(e ast.Expr) bool {
	if id, ok := e.(*ast.Ident); ok {
		return id.Name == "nil" || id.Name == "false"
	}
	return false
}

// checkElementRepresentation applies R2 to one property package.
func checkElementRepresentation(res *Result, S *Streams, pm *PropModel, rule string) {
	info := pm.G.Pkg.TypesInfo
	fn := pm.G.Dir
	en := elemStructName(pm)
	flagOwner := map[*types.Var]*Member{}
	for _, m := range pm.Members {
		if m.HasFlag != nil {
			flagOwner[m.HasFlag] = m
		}
	}
	// clear
	var clearFd *ast.FuncDecl
	for _, n := range []string{"(" + en + ").clear", "(" + en + ").Clear"} {
		if fd := pm.G.Funcs[n]; fd != nil {
			clearFd = fd
		}
	}
	if clearFd == nil {
		res.undecided(rule, fn, "-", "element has a clear method", "not found")
		return
	}
	zeroed := map[*types.Var]bool{}
	for _, a := range thisAssigns(info, clearFd.Body) {
		if isZeroExpr(a.rhs) {
			zeroed[a.f] = true
		}
	}
	var notReset []string
	for _, m := range pm.Members {
		if m.HasFlag != nil {
			if !zeroed[m.HasFlag] {
				notReset = append(notReset, m.HasFlag.Name())
			}
		} else if !zeroed[m.Field] {
			notReset = append(notReset, m.Field.Name())
		}
	}
	for _, extra := range []string{"unknown", "iri"} {
		if f := structHasField(pm.Elem, extra); f != nil && !zeroed[f] {
			notReset = append(notReset, extra)
		}
	}
	sort.Strings(notReset)
	res.check(len(notReset) == 0, rule, fn, S.pos(clearFd), "clear resets every representation ("+fmt.Sprint(len(pm.Members))+" members, iri, unknown)", "not reset: "+strings.Join(notReset, ", ")+" — a value of that kind set earlier is still reported after another kind is stored")

	// setters
	nSet := 0
	memberOfSetter := map[string]*Member{}
	for name, fd := range pm.G.Funcs {
		if !strings.HasPrefix(name, "("+en+").Set") || fd.Type.Params == nil {
			continue
		}
		x := strings.TrimPrefix(name, "("+en+").Set")
		if x == "Language" {
			// SetLanguage edits the language map in place; every OTHER representation (the other
			// members' flags, iri, unknown) is reset first, so that exactly one kind is set afterwards
			callsClear := false
			assigned := map[*types.Var]bool{}
			for _, st := range fd.Body.List {
				switch y := st.(type) {
				case *ast.ExprStmt:
					if c, ok := y.X.(*ast.CallExpr); ok {
						if sel, ok := c.Fun.(*ast.SelectorExpr); ok && isIdentNamed(sel.X, "this") && (sel.Sel.Name == "clear" || sel.Sel.Name == "Clear") {
							callsClear = true
						}
					}
				case *ast.AssignStmt:
					if len(y.Lhs) == 1 && len(y.Rhs) == 1 && isZeroExpr(y.Rhs[0]) {
						if fv := thisField(info, y.Lhs[0]); fv != nil {
							assigned[fv] = true
						}
					}
				}
			}
			var left []string
			for f := range zeroed {
				if m := pm.memberByField[f]; m != nil && m.Lit == "langString" {
					continue
				}
				if !callsClear && !assigned[f] {
					left = append(left, f.Name())
				}
			}
			sort.Strings(left)
			res.check(len(left) == 0, rule, fn, S.pos(fd), "SetLanguage resets every other representation before it writes the language map", "not reset: "+strings.Join(left, ", ")+" — a value of that kind set earlier is still reported alongside the language map (two kinds at once)")
			continue
		}
		if x == "Type" {
			continue // SetType dispatches to the typed setters (C18-R4)
		}
		nSet++
		okClear := false
		if len(fd.Body.List) > 0 {
			if es, ok := fd.Body.List[0].(*ast.ExprStmt); ok {
				if c, ok := es.X.(*ast.CallExpr); ok {
					if sel, ok := c.Fun.(*ast.SelectorExpr); ok && isIdentNamed(sel.X, "this") && (sel.Sel.Name == "clear" || sel.Sel.Name == "Clear") {
						okClear = true
					}
				}
			}
		}
		if !okClear {
			// clear written out: before anything is stored, every field clear() resets is reset
			// (a field the setter itself stores into afterwards need not be reset first: the last
			// unconditional assignment decides, and non-zero ones are judged by the next rule)
			inl := map[*types.Var]bool{}
			for _, st := range fd.Body.List {
				as, ok := st.(*ast.AssignStmt)
				if !ok || len(as.Lhs) != 1 || len(as.Rhs) != 1 {
					break
				}
				if fv := thisField(info, as.Lhs[0]); fv != nil {
					inl[fv] = true
				} else {
					break
				}
			}
			all := len(zeroed) > 0
			for f := range zeroed {
				if !inl[f] {
					all = false
				}
			}
			okClear = all
		}
		res.check(okClear, rule, fn, S.pos(fd), "Set"+x+" clears the element first", "no clear before the new value is stored: the previous kind remains set")
		var written []*Member
		var flags []*types.Var
		okVals := true
		var param types.Object
		if len(fd.Type.Params.List) == 1 && len(fd.Type.Params.List[0].Names) == 1 {
			param = info.ObjectOf(fd.Type.Params.List[0].Names[0])
		}
		iriWritten := false
		for _, a := range thisAssigns(info, fd.Body) {
			if isZeroExpr(a.rhs) {
				continue // a reset (clear written out), not a store
			}
			if m := pm.memberByField[a.f]; m != nil {
				written = append(written, m)
				if id, ok := a.rhs.(*ast.Ident); !ok || info.ObjectOf(id) != param {
					okVals = false
				}
			} else if flagOwner[a.f] != nil {
				flags = append(flags, a.f)
				if !isIdentNamed(a.rhs, "true") {
					okVals = false
				}
			} else if a.f.Name() == "iri" {
				iriWritten = true
			}
		}
		if x == "IRI" {
			if structHasField(pm.Elem, "iri") == nil {
				// the property's range includes xsd:anyURI: an IRI is that member; SetIRI delegates to its setter
				delegates := false
				ast.Inspect(fd.Body, func(n ast.Node) bool {
					if c, ok := n.(*ast.CallExpr); ok && len(c.Args) == 1 {
						if sel, ok := c.Fun.(*ast.SelectorExpr); ok && isIdentNamed(sel.X, "this") && (sel.Sel.Name == "Set" || sel.Sel.Name == "SetXMLSchemaAnyURI") {
							if id, ok := c.Args[0].(*ast.Ident); ok && info.ObjectOf(id) == param {
								delegates = true
							}
						}
					}
					return true
				})
				res.check(delegates && len(written) == 0 && len(flags) == 0, rule, fn, S.pos(fd), "SetIRI stores the IRI through the anyURI setter", "does something else")
			} else {
				res.check(iriWritten && len(written) == 0 && len(flags) == 0, rule, fn, S.pos(fd), "SetIRI stores only the IRI", "writes other members")
			}
			continue
		}
		ok := len(written) == 1 && okVals && !iriWritten
		if ok {
			m := written[0]
			if m.HasFlag != nil {
				ok = len(flags) == 1 && flags[0] == m.HasFlag
			} else {
				ok = len(flags) == 0
			}
			memberOfSetter[x] = m
		}
		res.check(ok, rule, fn, S.pos(fd), "Set"+x+" stores its argument in exactly one member (with that member's flag)", fmt.Sprintf("members written: %d, flags written: %d, values ok: %v", len(written), len(flags), okVals))
	}
	// kind names: Is<X> methods name the kinds; a single-kind property's setter is plain Set
	isTests := func(fd *ast.FuncDecl, m *Member) bool {
		if fd == nil || len(fd.Body.List) != 1 {
			return false
		}
		r, ok := fd.Body.List[0].(*ast.ReturnStmt)
		if !ok || len(r.Results) != 1 {
			return false
		}
		if m.HasFlag != nil {
			return thisField(info, r.Results[0]) == m.HasFlag
		}
		if be, ok := r.Results[0].(*ast.BinaryExpr); ok && be.Op == token.NEQ && isIdentNamed(be.Y, "nil") {
			return thisField(info, be.X) == m.Field
		}
		return false
	}
	if m, ok := memberOfSetter[""]; ok {
		delete(memberOfSetter, "")
		for name, fd := range pm.G.Funcs {
			if strings.HasPrefix(name, "("+en+").Is") && name != "("+en+").IsIRI" && isTests(fd, m) {
				memberOfSetter[strings.TrimPrefix(name, "("+en+").Is")] = m
			}
		}
	}
	// Is / Get agree with the setter's member
	for x, m := range memberOfSetter {
		if fd := pm.G.Funcs["("+en+").Is"+x]; fd != nil {
			ok := false
			if len(fd.Body.List) == 1 {
				if r, ok2 := fd.Body.List[0].(*ast.ReturnStmt); ok2 && len(r.Results) == 1 {
					if m.HasFlag != nil {
						ok = thisField(info, r.Results[0]) == m.HasFlag
					} else if be, ok3 := r.Results[0].(*ast.BinaryExpr); ok3 && be.Op == token.NEQ && isIdentNamed(be.Y, "nil") {
						ok = thisField(info, be.X) == m.Field
					}
				}
			}
			res.check(ok, rule, fn, S.pos(fd), "Is"+x+" reports the member Set"+x+" writes", "tests another member or flag")
		} else {
			res.bad(rule, fn, "-", "Is"+x+" exists", "missing")
		}
		gname := "Get" + x
		if fd := pm.G.Funcs["("+en+")."+gname]; fd == nil {
			// functional single-kind properties use Get()
			fd = pm.G.Funcs["("+en+").Get"]
			if fd == nil {
				res.bad(rule, fn, "-", gname+" exists", "missing")
				continue
			}
			gname = "Get"
		}
		fd := pm.G.Funcs["("+en+")."+gname]
		ok := false
		if fd != nil && len(fd.Body.List) == 1 {
			if r, ok2 := fd.Body.List[0].(*ast.ReturnStmt); ok2 && len(r.Results) == 1 {
				ok = thisField(info, r.Results[0]) == m.Field
			}
		}
		res.check(ok, rule, fn, S.pos(fd), gname+" returns the member Set"+x+" writes", "returns another member")
	}
	res.check(len(memberOfSetter) == len(pm.Members), rule, fn, "-", fmt.Sprintf("each of the %d members has exactly one typed setter", len(pm.Members)), fmt.Sprintf("%d setters resolved", len(memberOfSetter)))

	checkElementComposites(res, S, pm, rule, memberOfSetter, nil)
}

// checkElementComposites: every element literal built in the package (or only
// in the functions `only`) holds at most one representation, with that
// member's own flag set to the constant true; container methods <Op><X> fill
// the member of kind X.
func checkElementComposites(res *Result, S *Streams, pm *PropModel, rule string, memberOfSetter map[string]*Member, only map[*ast.FuncDecl]bool) {
	info := pm.G.Pkg.TypesInfo
	fn := pm.G.Dir
	flagOwner := map[*types.Var]*Member{}
	for _, m := range pm.Members {
		if m.HasFlag != nil {
			flagOwner[m.HasFlag] = m
		}
	}
	for name, fd := range pm.G.Funcs {
		if only != nil && !only[fd] {
			continue
		}
		for _, cs := range compositesOf(info, fd, pm.Elem) {
			var mem []*Member
			var flags []*types.Var
			reps := 0
			flagsTrue := true
			for _, kv := range cs.lit.Elts {
				k, ok := kv.(*ast.KeyValueExpr)
				if !ok {
					continue
				}
				fv, _ := info.ObjectOf(k.Key.(*ast.Ident)).(*types.Var)
				switch {
				case pm.memberByField[fv] != nil:
					mem = append(mem, pm.memberByField[fv])
					reps++
				case flagOwner[fv] != nil:
					flags = append(flags, fv)
					if !isIdentNamed(k.Value, "true") {
						flagsTrue = false
					}
				case fv != nil && (fv.Name() == "iri" || fv.Name() == "unknown"):
					reps++
				}
			}
			ok := reps <= 1 && flagsTrue
			if ok {
				if len(mem) == 1 && mem[0].HasFlag != nil {
					ok = len(flags) == 1 && flags[0] == mem[0].HasFlag
				} else {
					ok = len(flags) == 0
				}
			}
			if !ok {
				res.bad(rule, fn, S.pos(cs.lit), "an element built in "+name+" holds exactly one representation with its own kind flag set to true", fmt.Sprintf("representations %d, flags %d, flags constant true: %v", reps, len(flags), flagsTrue))
			}
			// container methods named <Op><X> must fill the member of kind X
			for _, op := range []string{"Append", "Prepend", "Insert", "Set"} {
				cn := ""
				if pm.Container != nil {
					cn = "(" + pm.Container.Obj().Name() + ")." + op
				}
				if cn != "" && strings.HasPrefix(name, cn) {
					x := strings.TrimPrefix(name, cn)
					if x == "IRI" {
						hasIRI := false
						for _, kv := range cs.lit.Elts {
							if k, ok := kv.(*ast.KeyValueExpr); ok && isIdentNamed(k.Key, "iri") {
								hasIRI = true
							}
						}
						if structHasField(pm.Elem, "iri") == nil {
							hasIRI = len(mem) == 1 && mem[0].Lit == "anyURI"
							res.check(hasIRI, rule, fn, S.pos(cs.lit), name+" stores an IRI element (as the anyURI member)", "fills another member")
						} else {
							res.check(hasIRI && len(mem) == 0, rule, fn, S.pos(cs.lit), name+" stores an IRI element", "fills another member")
						}
					} else if x != "Type" {
						want := memberOfSetter[x]
						if x == "" && len(pm.Members) == 1 {
							want = pm.Members[0] // single-kind property: plain Set(idx, v)
						}
						res.check(want != nil && len(mem) == 1 && mem[0] == want, rule, fn, S.pos(cs.lit), name+" builds an element of kind "+x, "fills another member than Set"+x+" does")
					}
				}
			}
		}
	}
}

// ---- R1: container invariant interpreter

type dirtyState struct {
	from   map[string]bool // dirty from index expr (textual) to the end
	points map[string]bool // dirty single positions
	all    bool
}

func (d *dirtyState) empty() bool { return !d.all && len(d.from) == 0 && len(d.points) == 0 }
func (d *dirtyState) String() string {
	var out []string
	if d.all {
		out = append(out, "all")
	}
	for f := range d.from {
		out = append(out, "["+f+", len)")
	}
	for p := range d.points {
		out = append(out, "{"+p+"}")
	}
	sort.Strings(out)
	return strings.Join(out, " ∪ ")
}

// isProps: e denotes this.properties (possibly parenthesised).
func isProps(info *types.Info, e ast.Expr) bool {
	for {
		if p, ok := e.(*ast.ParenExpr); ok {
			e = p.X
			continue
		}
		break
	}
	if id, ok := e.(*ast.Ident); ok && propsAliases != nil && propsAliases[info.ObjectOf(id)] {
		return true
	}
	fv := thisField(info, e)
	return fv != nil && fv.Name() == "properties"
}

// propsAliases: locals of the method being interpreted that were bound to this.properties (the
// slice header is copied, the backing array shared): writes through them are writes to the list.
var propsAliases map[types.Object]bool

// isListIndexExpr: an int expression over the method's index parameters and the length of the
// list: len(p), len(p) ± k, idx ± k (what a maintainer hoists into a local such as `last`).
func isListIndexExpr(info *types.Info, e ast.Expr) bool {
	switch x := e.(type) {
	case *ast.ParenExpr:
		return isListIndexExpr(info, x.X)
	case *ast.BasicLit:
		return x.Kind == token.INT
	case *ast.Ident:
		if v, ok := info.ObjectOf(x).(*types.Var); ok {
			b, isB := v.Type().Underlying().(*types.Basic)
			return isB && b.Kind() == types.Int
		}
	case *ast.CallExpr:
		if isIdentNamed(x.Fun, "len") && len(x.Args) == 1 && isProps(info, x.Args[0]) {
			return true
		}
		if sel, ok := x.Fun.(*ast.SelectorExpr); ok && sel.Sel.Name == "Len" && isIdentNamed(sel.X, "this") && len(x.Args) == 0 {
			return true
		}
	case *ast.BinaryExpr:
		if x.Op == token.ADD || x.Op == token.SUB {
			_, isLit := x.Y.(*ast.BasicLit)
			return isLit && isListIndexExpr(info, x.X)
		}
	}
	return false
}

// goodElement: expr is &Iter{… myIdx: <idx>, parent: this …} (or a local
// variable initialised with such a literal): returns the myIdx expression text.
func goodElement(info *types.Info, e ast.Expr, locals map[types.Object]*ast.CompositeLit) (idx string, ok bool) {
	var cl *ast.CompositeLit
	switch x := e.(type) {
	case *ast.UnaryExpr:
		if x.Op == token.AND {
			cl, _ = x.X.(*ast.CompositeLit)
		}
	case *ast.CompositeLit:
		cl = x
	case *ast.Ident:
		cl = locals[info.ObjectOf(x)]
	}
	if cl == nil {
		return "", false
	}
	hasParent := false
	for _, kv := range cl.Elts {
		k, ok := kv.(*ast.KeyValueExpr)
		if !ok {
			continue
		}
		switch {
		case isIdentNamed(k.Key, "myIdx"):
			idx = types.ExprString(k.Value)
		case isIdentNamed(k.Key, "parent"):
			hasParent = isIdentNamed(k.Value, "this")
		}
	}
	return idx, hasParent && idx != ""
}

// interpretContainerMethod runs the abstract interpreter over one method body.
func interpretContainerMethod(info *types.Info, fd *ast.FuncDecl, methods map[string]*ast.FuncDecl) (exits []string, undecided []string) {
	// parameters of a helper method being interpreted at its call site -> text of the arguments
	env := map[string]string{}
	depth := 0
	xs := func(e ast.Expr) string {
		t := types.ExprString(e)
		if len(env) == 0 {
			return t
		}
		for round := 0; round < 3; round++ {
			before := t
			for pn, at := range env {
				t = regexp.MustCompile(`\b`+regexp.QuoteMeta(pn)+`\b`).ReplaceAllString(t, at)
			}
			if t == before {
				break
			}
		}
		return t
	}
	propsAliases = map[types.Object]bool{}
	defer func() { propsAliases = nil }()
	var lenIs types.Object              // a local that equals the length of the list: what `p = p[:n]` last truncated it to
	pendingTrunc := false               // a local alias was truncated and not yet stored back
	elemAt := map[types.Object]string{} // locals holding an element of the list -> the slot it sits in now
	d := &dirtyState{from: map[string]bool{}, points: map[string]bool{}}
	returnsError := false
	if fd.Type.Results != nil && len(fd.Type.Results.List) > 0 {
		if id, ok := fd.Type.Results.List[len(fd.Type.Results.List)-1].Type.(*ast.Ident); ok && id.Name == "error" {
			returnsError = true
		}
	}
	locals := map[types.Object]*ast.CompositeLit{}
	report := func() {
		if pendingTrunc {
			exits = append(exits, "the list was shortened through a local copy of the slice header that is never stored back")
			return
		}
		if !d.empty() {
			exits = append(exits, d.String())
		}
	}
	var run func(stmts []ast.Stmt) bool // returns true if control certainly left the function
	// local closures `f := func(..) {..}` whose body touches the list: what a call of f may leave
	// dirty is added (never what it cleans) wherever a statement calls f; inside a loop a closure
	// that appends makes every position suspect
	closures := map[types.Object]*ast.FuncLit{}
	closureCallsIn := func(n ast.Node) []*ast.FuncLit {
		var out []*ast.FuncLit
		ast.Inspect(n, func(m ast.Node) bool {
			if _, isLit := m.(*ast.FuncLit); isLit {
				return false
			}
			if c, ok := m.(*ast.CallExpr); ok {
				if id, ok := c.Fun.(*ast.Ident); ok {
					if lit := closures[info.ObjectOf(id)]; lit != nil {
						out = append(out, lit)
					}
				}
			}
			return true
		})
		return out
	}
	applyClosure := func(lit *ast.FuncLit, inLoop bool) {
		save := copyDirty(d)
		depth++
		run(lit.Body.List)
		depth--
		after := copyDirty(d)
		*d = *save
		mergeDirty(d, after)
		if inLoop {
			ast.Inspect(lit.Body, func(n ast.Node) bool {
				if as, ok := n.(*ast.AssignStmt); ok && len(as.Lhs) == 1 && isProps(info, as.Lhs[0]) {
					d.all = true
				}
				return true
			})
		}
	}
	run = func(stmts []ast.Stmt) bool {
		for _, st := range stmts {
			if len(closures) > 0 {
				switch s := st.(type) {
				case *ast.ForStmt, *ast.RangeStmt:
					for _, lit := range closureCallsIn(s) {
						applyClosure(lit, true)
					}
				case *ast.IfStmt:
					// the init and condition of this if; its branches are interpreted below
					if s.Init != nil {
						for _, lit := range closureCallsIn(s.Init) {
							applyClosure(lit, false)
						}
					}
					for _, lit := range closureCallsIn(s.Cond) {
						applyClosure(lit, false)
					}
				case *ast.BlockStmt:
				default:
					for _, lit := range closureCallsIn(st) {
						applyClosure(lit, false)
					}
				}
			}
			switch s := st.(type) {
			case *ast.ReturnStmt:
				if depth > 0 {
					return true // end of the helper being interpreted in place
				}
				// a decoder that fails hands its caller an error; the half-built container that
				// may accompany it is not a container anybody iterates (every generated caller
				// returns nil, err): the invariant is owed at the exits that report success
				if returnsError && len(s.Results) > 0 && !isIdentNamed(s.Results[len(s.Results)-1], "nil") {
					return true
				}
				report()
				return true
			case *ast.AssignStmt:
				// f := func(..) {..}
				if s.Tok == token.DEFINE && len(s.Lhs) == 1 && len(s.Rhs) == 1 {
					if lit, ok := s.Rhs[0].(*ast.FuncLit); ok {
						if id, ok := s.Lhs[0].(*ast.Ident); ok {
							if mentionsInvariantState(info, lit.Body) {
								closures[info.ObjectOf(id)] = lit
							}
							continue
						}
					}
				}
				// elems := this.properties   |   last := len(elems) - 1   |   e := elems[i]
				if s.Tok == token.DEFINE && len(s.Lhs) == len(s.Rhs) {
					all := true
					for i := range s.Lhs {
						id, ok := s.Lhs[i].(*ast.Ident)
						if !ok {
							all = false
							break
						}
						r := s.Rhs[i]
						if pr, ok := r.(*ast.ParenExpr); ok {
							r = pr.X
						}
						switch {
						case isProps(info, r):
						case isListIndexExpr(info, r):
						default:
							if ix, ok := r.(*ast.IndexExpr); !ok || !isProps(info, ix.X) {
								all = false
							}
						}
						_ = id
					}
					if all {
						for i := range s.Lhs {
							id := s.Lhs[i].(*ast.Ident)
							r := s.Rhs[i]
							if pr, ok := r.(*ast.ParenExpr); ok {
								r = pr.X
							}
							switch {
							case isProps(info, r):
								propsAliases[info.ObjectOf(id)] = true
								if len(env) == 0 {
									env = map[string]string{}
								}
								env[id.Name] = "this.properties"
							case isListIndexExpr(info, r):
								if len(env) == 0 {
									env = map[string]string{}
								}
								env[id.Name] = xs(r)
							default:
								elemAt[info.ObjectOf(id)] = xs(r.(*ast.IndexExpr).Index)
							}
						}
						continue
					}
				}
				// n := &Iter{…}
				if s.Tok == token.DEFINE && len(s.Lhs) == 1 && len(s.Rhs) == 1 {
					if u, ok := s.Rhs[0].(*ast.UnaryExpr); ok && u.Op == token.AND {
						if cl, ok := u.X.(*ast.CompositeLit); ok {
							if id, ok := s.Lhs[0].(*ast.Ident); ok {
								locals[info.ObjectOf(id)] = cl
								continue
							}
						}
					}
				}
				// swap: p[i], p[j] = p[j], p[i]
				if len(s.Lhs) == 2 && len(s.Rhs) == 2 {
					l0, ok0 := s.Lhs[0].(*ast.IndexExpr)
					l1, ok1 := s.Lhs[1].(*ast.IndexExpr)
					if ok0 && ok1 && isProps(info, l0.X) && isProps(info, l1.X) {
						d.points[xs(l0.Index)] = true
						d.points[xs(l1.Index)] = true
						for i, l := range []*ast.IndexExpr{l0, l1} {
							if id, ok := s.Rhs[i].(*ast.Ident); ok {
								if _, isEl := elemAt[info.ObjectOf(id)]; isEl {
									elemAt[info.ObjectOf(id)] = xs(l.Index)
								}
							}
						}
						continue
					}
				}
				// whole-element overwrite through the pointer: *p[i] = …  (myIdx and parent are copied with it)
				starHit := false
				for _, l := range s.Lhs {
					if st, ok := l.(*ast.StarExpr); ok {
						x := st.X
						if pe, ok := x.(*ast.ParenExpr); ok {
							x = pe.X
						}
						if ix, ok := x.(*ast.IndexExpr); ok && isProps(info, ix.X) {
							d.points[xs(ix.Index)] = true
							starHit = true
						}
					}
				}
				if starHit {
					continue
				}
				if len(s.Lhs) != 1 || len(s.Rhs) != 1 {
					if mentionsInvariantState(info, s) {
						undecided = append(undecided, "unrecognised assignment "+xs(s.Lhs[0])+" = …")
					}
					continue
				}
				lhs, rhs := s.Lhs[0], s.Rhs[0]
				switch {
				case isProps(info, lhs):
					// this.properties = …
					switch r := rhs.(type) {
					case *ast.CallExpr:
						if isIdentNamed(r.Fun, "append") && len(r.Args) == 2 {
							if isProps(info, r.Args[0]) && !r.Ellipsis.IsValid() {
								// append(p, E)
								if isIdentNamed(r.Args[1], "nil") {
									d.points["len-1"] = true // filled by the following copy/assign
									continue
								}
								idx, ok := goodElement(info, r.Args[1], locals)
								if !ok || (idx != "this.Len()" && idx != "len(this.properties)") {
									d.points["len(after append)-1"] = true
								}
								continue
							}
							// append([]*Iter{E0}, p...)
							if cl, ok := r.Args[0].(*ast.CompositeLit); ok && isProps(info, r.Args[1]) && r.Ellipsis.IsValid() && len(cl.Elts) == 1 {
								var e0 ast.Expr = cl.Elts[0]
								if inner, ok := e0.(*ast.CompositeLit); ok {
									e0 = inner
								}
								idx, ok := goodElement(info, e0, locals)
								if !ok || idx != "0" {
									d.points["0"] = true
								}
								d.from["1"] = true
								continue
							}
						}
						// make([]*Iter, 0[, cap]): a fresh empty slice
						if isIdentNamed(r.Fun, "make") && len(r.Args) >= 2 {
							if bl, ok := r.Args[1].(*ast.BasicLit); ok && bl.Value == "0" {
								continue
							}
						}
						undecided = append(undecided, "unrecognised write to properties: "+xs(rhs))
					case *ast.Ident:
						// this.properties = elems: the (possibly shortened) local header is stored back
						if propsAliases[info.ObjectOf(r)] {
							if _, lhsIsLocal := lhs.(*ast.Ident); !lhsIsLocal {
								if pendingTrunc {
									delete(d.points, "last")
									pendingTrunc = false
								}
								continue
							}
						}
						undecided = append(undecided, "unrecognised write to properties: "+xs(rhs))
					case *ast.SliceExpr:
						// truncation p = p[:len(p)-1]
						if isProps(info, r.X) && r.Low == nil && r.High != nil && xs(r.High) == "len(this.properties) - 1" {
							if _, lhsIsLocal := lhs.(*ast.Ident); lhsIsLocal {
								pendingTrunc = true // takes effect when the header is stored back
								continue
							}
							if _, srcIsLocal := r.X.(*ast.Ident); srcIsLocal && pendingTrunc {
								undecided = append(undecided, "properties re-sliced from a local that was already shortened")
								continue
							}
							delete(d.points, "last")
							lenIs = nil
							if hid, ok := r.High.(*ast.Ident); ok {
								lenIs = info.ObjectOf(hid) // from here on this local is the length of the list
							}
							continue
						}
						undecided = append(undecided, "unrecognised reslice of properties")
					case *ast.CompositeLit:
						// fresh empty slice
						if len(r.Elts) == 0 {
							continue
						}
						undecided = append(undecided, "properties assigned a non-empty literal")
					default:
						undecided = append(undecided, "unrecognised write to properties: "+xs(rhs))
					}
				default:
					// p[idx] = E   |   p[i].myIdx = e   |   p[i].parent = e
					if ix, ok := lhs.(*ast.IndexExpr); ok && isProps(info, ix.X) {
						it := xs(ix.Index)
						if it == "len(this.properties) - 1" {
							d.points["last"] = true // a placeholder before truncation
							continue
						}
						if id, isId := rhs.(*ast.Ident); isId {
							if _, isEl := elemAt[info.ObjectOf(id)]; isEl {
								elemAt[info.ObjectOf(id)] = it
								d.points[it] = true
								continue
							}
						}
						idx, ok := goodElement(info, rhs, locals)
						delete(d.points, "detached:"+it) // the detached element is replaced
						if ok && idx == it {
							delete(d.points, it)
							if it == "len-1" {
								delete(d.points, "len-1")
							}
						} else {
							d.points[it] = true
						}
						continue
					}
					if sel, ok := lhs.(*ast.SelectorExpr); ok {
						if id, isId := sel.X.(*ast.Ident); isId {
							if slot, isEl := elemAt[info.ObjectOf(id)]; isEl {
								switch sel.Sel.Name {
								case "myIdx":
									if xs(rhs) == slot {
										delete(d.points, slot)
									} else {
										d.points[slot] = true
									}
									continue
								case "parent":
									if !isIdentNamed(rhs, "this") {
										d.points[slot] = true
									}
									continue
								}
							}
						}
						base := sel.X
						if p, ok := base.(*ast.ParenExpr); ok {
							base = p.X
						}
						if ix, ok := base.(*ast.IndexExpr); ok && isProps(info, ix.X) {
							it := xs(ix.Index)
							switch sel.Sel.Name {
							case "myIdx":
								if xs(rhs) == it {
									delete(d.points, it)
								} else {
									d.points[it] = true
								}
							case "parent":
								if isIdentNamed(rhs, "nil") {
									// detaching an element that is about to be overwritten/removed: it must be replaced below
									d.points["detached:"+it] = true
								} else if !isIdentNamed(rhs, "this") {
									d.points[it] = true
								}
							}
							continue
						}
					}
					if mentionsInvariantState(info, s) {
						undecided = append(undecided, "unrecognised assignment to "+xs(lhs))
					}
				}
			case *ast.ExprStmt:
				// this.helper(args): a method of the same property that writes the list or the
				// elements' index/parent is interpreted in place, its parameters standing for the arguments
				if c, ok := s.X.(*ast.CallExpr); ok && depth < 2 {
					if sel, ok := c.Fun.(*ast.SelectorExpr); ok && isIdentNamed(sel.X, "this") {
						if hd := methods[sel.Sel.Name]; hd != nil && hd != fd && hd.Body != nil && mentionsInvariantState(info, hd.Body) {
							okArgs := true
							ne := map[string]string{}
							i := 0
							if hd.Type.Params != nil {
								for _, fl := range hd.Type.Params.List {
									for _, n := range fl.Names {
										if i < len(c.Args) {
											ne[n.Name] = xs(c.Args[i])
										} else {
											okArgs = false
										}
										i++
									}
								}
							}
							if okArgs && i == len(c.Args) {
								saved := env
								env = ne
								depth++
								run(hd.Body.List)
								depth--
								env = saved
								continue
							}
						}
					}
				}
				// copy(p[a:], p[b:])
				if c, ok := s.X.(*ast.CallExpr); ok && isIdentNamed(c.Fun, "copy") && len(c.Args) == 2 {
					dst, ok0 := c.Args[0].(*ast.SliceExpr)
					src, ok1 := c.Args[1].(*ast.SliceExpr)
					if ok0 && ok1 && isProps(info, dst.X) && isProps(info, src.X) && dst.Low != nil && src.Low != nil {
						a, b := xs(dst.Low), xs(src.Low)
						lo := a
						if len(b) < len(a) {
							lo = b // idx vs idx+1: the smaller expression
						}
						d.from[lo] = true
						delete(d.points, "len-1")
						// a detached element at lo is overwritten by the shift
						delete(d.points, "detached:"+lo)
						continue
					}
					undecided = append(undecided, "unrecognised copy")
				}
			case *ast.ForStmt:
				// for i := A; i < this.Len(); i++ { p[i].myIdx = i }
				if as, ok := s.Init.(*ast.AssignStmt); ok && len(as.Lhs) == 1 && len(as.Rhs) == 1 && len(s.Body.List) == 1 {
					iv, _ := as.Lhs[0].(*ast.Ident)
					start := xs(as.Rhs[0])
					okCond := false
					if be, ok := s.Cond.(*ast.BinaryExpr); ok && be.Op == token.LSS && iv != nil && isIdentNamed(be.X, iv.Name) {
						c := xs(be.Y)
						okCond = c == "this.Len()" || c == "len(this.properties)"
						if yid, ok := be.Y.(*ast.Ident); ok && lenIs != nil && info.ObjectOf(yid) == lenIs {
							okCond = true
						}
					}
					okPost := false
					if inc, ok := s.Post.(*ast.IncDecStmt); ok && inc.Tok == token.INC && iv != nil && isIdentNamed(inc.X, iv.Name) {
						okPost = true
					}
					okBody := false
					if b, ok := s.Body.List[0].(*ast.AssignStmt); ok && len(b.Lhs) == 1 && len(b.Rhs) == 1 {
						if sel, ok := b.Lhs[0].(*ast.SelectorExpr); ok && sel.Sel.Name == "myIdx" {
							base := sel.X
							if p, ok := base.(*ast.ParenExpr); ok {
								base = p.X
							}
							if ix, ok := base.(*ast.IndexExpr); ok && isProps(info, ix.X) && iv != nil && isIdentNamed(ix.Index, iv.Name) && isIdentNamed(b.Rhs[0], iv.Name) {
								okBody = true
							}
						}
					}
					if okCond && okPost && okBody {
						// cleans [start, len): removes from[x] for x == start, and points ≥ start that are textually start
						for f := range d.from {
							if f == start {
								delete(d.from, f)
							}
						}
						delete(d.points, start)
						continue
					}
				}
				if mentionsInvariantState(info, s) {
					undecided = append(undecided, "unrecognised loop touching the element list")
				}
			case *ast.RangeStmt:
				// for off, ele := range this.properties[A:] { ele.myIdx = A + off }   — re-indexes [A, len)
				if sl, ok := s.X.(*ast.SliceExpr); ok && isProps(info, sl.X) && sl.Low != nil && sl.High == nil && s.Key != nil && s.Value != nil && len(s.Body.List) == 1 {
					k, _ := s.Key.(*ast.Ident)
					v, _ := s.Value.(*ast.Ident)
					start := xs(sl.Low)
					okBody := false
					if as, ok := s.Body.List[0].(*ast.AssignStmt); ok && len(as.Lhs) == 1 && len(as.Rhs) == 1 && k != nil && v != nil {
						if sel, ok := as.Lhs[0].(*ast.SelectorExpr); ok && isIdentNamed(sel.X, v.Name) && sel.Sel.Name == "myIdx" {
							if be, ok := as.Rhs[0].(*ast.BinaryExpr); ok && be.Op == token.ADD {
								if (xs(be.X) == start && isIdentNamed(be.Y, k.Name)) || (xs(be.Y) == start && isIdentNamed(be.X, k.Name)) {
									okBody = true
								}
							}
						}
					}
					if okBody {
						for f := range d.from {
							if f == start {
								delete(d.from, f)
							}
						}
						delete(d.points, start)
						continue
					}
				}
				// for idx, ele := range this.properties { ele.parent = this; ele.myIdx = idx }
				if isProps(info, s.X) && s.Key != nil && s.Value != nil {
					k, _ := s.Key.(*ast.Ident)
					v, _ := s.Value.(*ast.Ident)
					setsIdx, setsParent := false, false
					for _, b := range s.Body.List {
						if as, ok := b.(*ast.AssignStmt); ok && len(as.Lhs) == 1 && len(as.Rhs) == 1 {
							if sel, ok := as.Lhs[0].(*ast.SelectorExpr); ok && v != nil && isIdentNamed(sel.X, v.Name) {
								if sel.Sel.Name == "myIdx" && k != nil && isIdentNamed(as.Rhs[0], k.Name) {
									setsIdx = true
								}
								if sel.Sel.Name == "parent" && isIdentNamed(as.Rhs[0], "this") {
									setsParent = true
								}
							}
						}
					}
					if setsIdx && setsParent {
						d.all = false
						d.from = map[string]bool{}
						d.points = map[string]bool{}
						continue
					}
				}
				if mentionsInvariantState(info, s) {
					// loops that only read (serialise, JSONLDContext, Less) are fine; those that append unindexed elements are dirty-all
					appends := false
					ast.Inspect(s, func(n ast.Node) bool {
						if as, ok := n.(*ast.AssignStmt); ok && len(as.Lhs) == 1 && isProps(info, as.Lhs[0]) {
							appends = true
						}
						return true
					})
					if appends {
						d.all = true
					}
				}
			case *ast.IfStmt:
				// branches: interpret both on copies; merge by union
				save := copyDirty(d)
				leftThen := run(s.Body.List)
				afterThen := copyDirty(d)
				*d = *save
				leftElse := false
				if s.Else != nil {
					switch e := s.Else.(type) {
					case *ast.BlockStmt:
						leftElse = run(e.List)
					case *ast.IfStmt:
						leftElse = run([]ast.Stmt{e})
					}
				}
				if leftThen && leftElse {
					return true
				}
				if !leftThen {
					if leftElse {
						*d = *afterThen
					} else {
						mergeDirty(d, afterThen)
					}
				}
			}
		}
		return false
	}
	if !run(fd.Body.List) {
		report() // falling off the end
	}
	return
}

func copyDirty(d *dirtyState) *dirtyState {
	n := &dirtyState{from: map[string]bool{}, points: map[string]bool{}, all: d.all}
	for k := range d.from {
		n.from[k] = true
	}
	for k := range d.points {
		n.points[k] = true
	}
	return n
}

func mergeDirty(d, o *dirtyState) {
	d.all = d.all || o.all
	for k := range o.from {
		d.from[k] = true
	}
	for k := range o.points {
		d.points[k] = true
	}
}

// mentionsInvariantState: the statement writes properties / myIdx / parent.
func mentionsInvariantState(info *types.Info, n ast.Node) bool {
	hit := false
	ast.Inspect(n, func(m ast.Node) bool {
		as, ok := m.(*ast.AssignStmt)
		if !ok {
			return true
		}
		for _, l := range as.Lhs {
			if isProps(info, l) {
				hit = true
			}
			if sel, ok := l.(*ast.SelectorExpr); ok && (sel.Sel.Name == "myIdx" || sel.Sel.Name == "parent") {
				hit = true
			}
			if ix, ok := l.(*ast.IndexExpr); ok && isProps(info, ix.X) {
				hit = true
			}
			if st, ok := l.(*ast.StarExpr); ok {
				// a store through a pointer: to an element of the list, or to any value of the element's type
				x := st.X
				if pe, ok := x.(*ast.ParenExpr); ok {
					x = pe.X
				}
				if ix, ok := x.(*ast.IndexExpr); ok && isProps(info, ix.X) {
					hit = true
				} else if tv, ok := info.Types[st]; ok {
					if stt, ok := tv.Type.Underlying().(*types.Struct); ok {
						for i := 0; i < stt.NumFields(); i++ {
							if stt.Field(i).Name() == "myIdx" {
								hit = true
							}
						}
					}
				}
			}
		}
		return true
	})
	return hit
}

func checkC18(res *Result) {
	M := loadGenModel()
	S := M.S
	res.Packages = []string{modPath + "/streams/impl/..."}
	res.Explanation = "Operation histories are runtime; the representation invariants that make a container behave like a plain list are decided for every instance: (R1) for each of the 44 non-functional properties, an abstract interpreter over every method that writes the element slice or an element's myIdx/parent (Append*/Prepend*/Insert*/Set*/Remove/Swap, the Type variants, the deserialiser) tracks the index ranges where `properties[i].myIdx == i ∧ properties[i].parent == this` may be broken and requires it restored at every exit — Next/Prev/At rely on it; unrecognised writes are failures; (R2) for all 103 properties, each element holds exactly one representation: clear resets every member/flag/iri/unknown, every typed setter clears first and writes exactly its own member and flag, Is<K>/Get<K> read that member, and every element literal built anywhere (deserialiser, Append/Prepend/Insert/Set) fills at most one member with that member's own flag set to true; (R3) Next/Prev/At/Begin/End/Len have their canonical bodies."
	res.Rule("C18-R1", "invariant preservation: every container method leaves ∀i: properties[i].myIdx == i ∧ properties[i].parent == this at every exit")
	res.Rule("C18-R2", "single representation: clear resets all; each setter clears then writes exactly its member and flag; Is/Get read it; every element literal fills at most one member with its own flag")
	res.Rule("C18-R3", "navigation: Next/Prev step by ±1 against parent.Len(); At indexes the slice; Begin/End/Len/Empty are canonical")
	nNF, nMethods := 0, 0
	for _, pm := range M.Props {
		for _, pr := range pm.Problems {
			res.undecided("C18-R2", pm.G.Dir, "-", "property package has the generated structure", pr)
		}
		if len(pm.Problems) > 0 {
			continue
		}
		checkElementRepresentation(res, S, pm, "C18-R2")
		if pm.Functional {
			continue
		}
		nNF++
		info := pm.G.Pkg.TypesInfo
		cn := pm.Container.Obj().Name()
		var names []string
		for name := range pm.G.Funcs {
			names = append(names, name)
		}
		sort.Strings(names)
		for _, name := range names {
			fd := pm.G.Funcs[name]
			isContainerMethod := strings.HasPrefix(name, "("+cn+").")
			isDeser := fd == pm.PropDeser
			if !isContainerMethod && !isDeser {
				continue
			}
			if !mentionsInvariantState(info, fd.Body) {
				continue
			}
			nMethods++
			methods := map[string]*ast.FuncDecl{}
			for mn, mfd := range pm.G.Funcs {
				if strings.HasPrefix(mn, "("+cn+").") {
					methods[strings.TrimPrefix(mn, "("+cn+").")] = mfd
				}
			}
			exits, und := interpretContainerMethod(info, fd, methods)
			short := strings.TrimPrefix(name, "("+cn+").")
			key := "C18-R1|" + pm.G.Dir + "|" + short
			switch {
			case len(und) > 0:
				res.Add(Oblig{Rule: "C18-R1", Func: pm.G.Dir, Pos: S.pos(fd), Key: key, Desc: short + " has statements the invariant interpreter understands", Verdict: UNDECIDED, Detail: strings.Join(und, "; ")})
			case len(exits) > 0:
				res.Add(Oblig{Rule: "C18-R1", Func: pm.G.Dir, Pos: S.pos(fd), Key: key, Desc: short + " restores myIdx/parent of every element before returning", Verdict: VIOLATION,
					Detail: "positions possibly left with a stale myIdx/parent at an exit: " + strings.Join(exits, " | ") + " — iteration (Next/Prev) from those elements walks from the wrong position"})
			default:
				res.Add(Oblig{Rule: "C18-R1", Func: pm.G.Dir, Pos: S.pos(fd), Key: key, Desc: short + " restores myIdx/parent of every element before returning", Verdict: OK})
			}
		}
		// R3 navigation (semantic shape, tolerant of spelling)
		en := elemStructName(pm)
		stepArg := func(name string, op token.Token) {
			fd := pm.G.Funcs["("+en+")."+name]
			if fd == nil {
				res.bad("C18-R3", pm.G.Dir, "-", name+" exists", "missing")
				return
			}
			dir := 1
			if op == token.SUB {
				dir = -1
			}
			why := checkStep(info, fd, dir)
			res.check(why == "", "C18-R3", pm.G.Dir, S.pos(fd), name+" returns parent.At(myIdx "+op.String()+" 1), or nil exactly where that index is outside the list", why)
		}
		stepArg("Next", token.ADD)
		stepArg("Prev", token.SUB)
		if fd := pm.G.Funcs["("+cn+").At"]; fd != nil {
			ok := false
			if len(fd.Body.List) == 1 {
				if r, ok2 := fd.Body.List[0].(*ast.ReturnStmt); ok2 && len(r.Results) == 1 {
					if ix, ok3 := r.Results[0].(*ast.IndexExpr); ok3 && isProps(info, ix.X) && fd.Type.Params != nil && len(fd.Type.Params.List) == 1 {
						if id, ok4 := ix.Index.(*ast.Ident); ok4 && info.ObjectOf(id) == info.ObjectOf(fd.Type.Params.List[0].Names[0]) {
							ok = true
						}
					}
				}
			}
			res.check(ok, "C18-R3", pm.G.Dir, S.pos(fd), "At(i) returns the i-th element", "different body")
		} else {
			res.bad("C18-R3", pm.G.Dir, "-", "At exists", "missing")
		}
		if fd := pm.G.Funcs["("+cn+").Len"]; fd != nil {
			ok := false
			if len(fd.Body.List) == 1 {
				if r, ok2 := fd.Body.List[0].(*ast.ReturnStmt); ok2 && len(r.Results) == 1 {
					if c, ok3 := r.Results[0].(*ast.CallExpr); ok3 && isIdentNamed(c.Fun, "len") && len(c.Args) == 1 && isProps(info, c.Args[0]) {
						ok = true
					}
				}
			}
			res.check(ok, "C18-R3", pm.G.Dir, S.pos(fd), "Len is the length of the element slice", "different body")
		} else {
			res.bad("C18-R3", pm.G.Dir, "-", "Len exists", "missing")
		}
	}
	res.Rule("C18-R4", "GetType / SetType are total, uncrossed dispatch tables over the element's type-valued kinds")
	checkTypeAccessorTables(res, "C18-R4", nil)
	res.Count("non-functional properties", nNF, 42)
	res.Count("container methods interpreted", nMethods, 400)
	res.Count("property packages", len(M.Props), 100)
	res.Functions = nMethods
	res.Assumptions = append(res.Assumptions, "index expressions are compared textually (idx, idx+1, 0, 1, this.Len()): sound for the generated forms, anything else is reported as undecided", "At/Remove/Set with an out-of-range index panic by contract (not input-driven)")
	res.Undecided = []string{"agreement with a plain list over arbitrary operation histories (only the invariants that imply it are decided)", "LessThan / KindIndex ordering semantics", "the generator templates (shipped instances are checked)"}
	res.Trusted = []string{"go/parser, go/types", "e5_model.go extraction", "the interpreter's statement forms (c18.go)"}
}

// isMyIdxPlus: e is this.myIdx <op> 1 (either operand order for +).
func isMyIdxPlus(e ast.Expr, op token.Token) bool {
	be, ok := e.(*ast.BinaryExpr)
	if !ok || be.Op != op {
		return false
	}
	isMy := func(x ast.Expr) bool {
		sel, ok := x.(*ast.SelectorExpr)
		return ok && sel.Sel.Name == "myIdx" && isIdentNamed(sel.X, "this")
	}
	isOne := func(x ast.Expr) bool {
		l, ok := x.(*ast.BasicLit)
		return ok && l.Value == "1"
	}
	if isMy(be.X) && isOne(be.Y) {
		return true
	}
	return op == token.ADD && isOne(be.X) && isMy(be.Y)
}
