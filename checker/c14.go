package main

// C14 — resolvers call exactly the callback written for the value's own type.
//
// The three resolvers are generated if-chains; their dispatch relation is
// extracted from the syntax tree (strict forms; anything else is undecided)
// and checked for self-consistency and against the ontology's typed types.

import (
	"fmt"
	"go/ast"
	"go/token"
	"go/types"
	"golang.org/x/tools/go/ssa"
	"sort"
	"strings"
)

// normURI strips scheme and a trailing '#' so that http/https and "ns#"/"ns" compare equal.
func normURI(u string) string {
	u = strings.TrimPrefix(u, "https://")
	u = strings.TrimPrefix(u, "http://")
	return strings.TrimSuffix(u, "#")
}

// ifChain flattens `if c1 {b1} else if c2 {b2} ... else {bn}`.
type chainLink struct {
	cond ast.Expr // nil for the final else
	body *ast.BlockStmt
	pos  token.Pos
}

func flattenIfChain(s *ast.IfStmt) []chainLink {
	var out []chainLink
	for s != nil {
		out = append(out, chainLink{s.Cond, s.Body, s.Pos()})
		switch e := s.Else.(type) {
		case *ast.IfStmt:
			s = e
		case *ast.BlockStmt:
			out = append(out, chainLink{nil, e, e.Pos()})
			s = nil
		default:
			s = nil
		}
	}
	return out
}

// callbackFuncType: e is `func(context.Context, vocab.T) <results>`; returns T's named type.
func callbackParamType(info *types.Info, e ast.Expr) (*types.Named, *types.Signature) {
	tv, ok := info.Types[e]
	if !ok {
		return nil, nil
	}
	sig, ok := tv.Type.(*types.Signature)
	if !ok || sig.Params().Len() != 2 || !typeIs(sig.Params().At(0).Type(), "context", "Context") {
		return nil, nil
	}
	n, _ := sig.Params().At(1).Type().(*types.Named)
	return n, sig
}

func isIdentNamed(e ast.Expr, name string) bool {
	id, ok := e.(*ast.Ident)
	return ok && id.Name == name
}

func returnsIdent(s ast.Stmt, names ...string) bool {
	r, ok := s.(*ast.ReturnStmt)
	if !ok || len(r.Results) != len(names) {
		return false
	}
	for i, n := range names {
		if !isIdentNamed(r.Results[i], n) {
			return false
		}
	}
	return true
}

type dispatchEntry struct {
	vocabURI string // as compared at run time (TypeResolver) or bound to the alias variable (JSONResolver)
	name     string
	cbType   *types.Named
	valType  *types.Named // asserted / deserialised value interface
	deser    *types.Func  // manager method (JSON only)
	pos      token.Pos
	problems []string
}

func checkC14(res *Result) {
	O := loadOntology()
	S := loadStreams()
	info := S.Root.TypesInfo
	res.Packages = []string{modPath + "/streams"}
	res.Explanation = "The dispatch relation is decided exhaustively from source: every branch of JSONResolver.Resolve, TypeResolver.Resolve and TypePredicatedResolver.Apply is parsed (strict statement forms; anything unrecognised is a failure) into (vocabulary, type name, callback parameter interface, asserted/deserialised value interface); each tuple must be self-consistent — the callback's parameter interface is the interface of exactly the generated type that returns that name and vocabulary (resolved through the Manager, not by name) — and the set of branches must be exactly the ontology's types, each once. Each branch invokes only the first registered callback of that exact signature and returns its error unchanged; no match gives ErrNoCallbackMatch, an unknown type ErrUnhandledType, and IsUnmatchedErr recognises exactly the three exported sentinels; the constructors accept exactly the legal signatures; ToType registers one assigning closure per typed type."
	res.Rule("C14-R1", "dispatch table: each branch's (vocabulary, name, callback interface, value interface) is self-consistent and the branch set equals the ontology's typed types, each once")
	res.Rule("C14-R2", "first match, nothing else, error unchanged: a branch calls only fn(ctx, v) for the first callback of exactly that signature and returns its result; otherwise ErrNoCallbackMatch / ErrUnhandledType; IsUnmatchedErr is the disjunction of the three exported sentinels")
	res.Rule("C14-R3", "constructors: NewJSONResolver, NewTypeResolver, NewTypePredicatedResolver accept exactly one legal signature per typed type and reject everything else")
	res.Rule("C14-R4", "ToType registers one closure per typed type, each assigning its argument to the result")

	for _, pr := range O.Problems {
		res.bad("C14-R1", "ontology", "-", "ontology well-formed", pr)
	}
	// interface -> generated type, through the Manager's Deserialize<Name><Vocab> methods
	ifaceOf := map[*types.Named]*GenType{}
	mgrMethod := map[*types.Func]*GenType{}
	typeByPkg := map[*types.Package]*GenType{}
	for _, g := range S.Types {
		typeByPkg[g.Pkg.Types] = g
	}
	for name, fd := range declaredFuncs(S.Root) {
		if !strings.HasPrefix(name, "(Manager).Deserialize") || strings.Contains(name, "Property") {
			continue
		}
		var target *GenType
		ast.Inspect(fd.Body, func(n ast.Node) bool {
			if c, ok := n.(*ast.CallExpr); ok {
				if f := calleeFunc(info, c); f != nil && f.Pkg() != nil {
					if g := typeByPkg[f.Pkg()]; g != nil && strings.HasPrefix(f.Name(), "Deserialize") {
						target = g
					}
				}
			}
			return true
		})
		obj, _ := info.Defs[fd.Name].(*types.Func)
		if target == nil || obj == nil {
			continue
		}
		sig := obj.Type().(*types.Signature)
		if rs, ok := sig.Results().At(0).Type().(*types.Signature); ok && rs.Results().Len() == 2 {
			if n, ok := rs.Results().At(0).Type().(*types.Named); ok {
				ifaceOf[n] = target
				mgrMethod[obj] = target
			}
		}
	}
	res.Count("manager type deserialisers resolved", len(ifaceOf), 60)
	// every type the vocabularies define gets a branch (including the typeless
	// PublicKey: its name can still be named by a document's "type")
	typed := map[string]bool{}
	for n := range O.Types {
		typed[n] = true
	}

	checkEntries := func(which string, entries []*dispatchEntry, declPos token.Pos) {
		seen := map[string]int{}
		for _, e := range entries {
			for _, pr := range e.problems {
				res.undecided("C14-R2", which, relPos(S.Fset, e.pos), "branch for "+e.name+" has the generated form", pr)
			}
			seen[e.name]++
			g := ifaceOf[e.cbType]
			ot := O.Types[e.name]
			var why []string
			if g == nil {
				why = append(why, "the callback's parameter type is not the interface of a generated type")
			} else {
				if g.Name != e.name {
					why = append(why, fmt.Sprintf("the callback takes the interface of type %q but the branch is for %q", g.Name, e.name))
				}
				if normURI(g.VocabURI) != normURI(e.vocabURI) {
					why = append(why, fmt.Sprintf("branch vocabulary %q but the type lives in %q", e.vocabURI, g.VocabURI))
				} else if which != "JSONResolver.Resolve" && g.VocabURI != e.vocabURI {
					// a comparison of strings at run time: the two literals must be identical, not merely
					// spellings of one vocabulary
					why = append(why, fmt.Sprintf("the branch compares VocabularyURI() with %q but %s.VocabularyURI() returns %q: the branch is never taken for a value of its own type", e.vocabURI, g.Name, g.VocabURI))
				}
			}
			if e.valType != e.cbType {
				why = append(why, "the value handed to the callback is asserted/deserialised as a different interface than the callback takes")
			}
			if e.deser != nil && mgrMethod[e.deser] != g {
				why = append(why, "the deserialiser used is that of another type")
			}
			if ot == nil {
				why = append(why, "no such type in the ontology")
			} else if normURI(ot.Vocab.ID) != normURI(e.vocabURI) {
				why = append(why, fmt.Sprintf("the ontology defines %s in %s", e.name, ot.Vocab.ID))
			}
			res.Add(Oblig{Rule: "C14-R1", Func: which, Pos: relPos(S.Fset, e.pos), Key: "C14-R1|" + which + "|" + e.name + "#" + fmt.Sprint(seen[e.name]),
				Desc: "branch for " + e.name + " dispatches to the callback for exactly that type", Verdict: map[bool]string{true: OK, false: VIOLATION}[len(why) == 0], Detail: strings.Join(why, "; ")})
		}
		var names []string
		for n := range typed {
			names = append(names, n)
		}
		sort.Strings(names)
		for _, n := range names {
			res.check(seen[n] == 1, "C14-R1", which, relPos(S.Fset, declPos), "ontology type "+n+" has exactly one branch", fmt.Sprintf("%d branches", seen[n]))
		}
		for n := range seen {
			if !typed[n] {
				res.bad("C14-R1", which, relPos(S.Fset, declPos), "only ontology types have a branch", "branch for "+n)
			}
		}
	}

	funcs := declaredFuncs(S.Root)

	// ---- JSONResolver.Resolve
	if fd := funcs["(JSONResolver).Resolve"]; fd == nil {
		res.undecided("C14-R1", "JSONResolver.Resolve", "-", "method found", "missing")
	} else {
		mk := res.mark()
		defer func() {}()
		var handle *ast.FuncLit
		ast.Inspect(fd.Body, func(n ast.Node) bool {
			if fl, ok := n.(*ast.FuncLit); ok && handle == nil {
				handle = fl
			}
			return true
		})
		aliasURI := map[types.Object]string{}
		var chain []chainLink
		if handle != nil {
			for _, st := range handle.Body.List {
				switch s := st.(type) {
				case *ast.AssignStmt:
					// XAlias, ok := aliasMap["uri"]
					if len(s.Lhs) == 2 && len(s.Rhs) == 1 {
						if ix, ok := s.Rhs[0].(*ast.IndexExpr); ok {
							if u, ok := strLit(info, ix.Index); ok {
								if id, ok := s.Lhs[0].(*ast.Ident); ok {
									aliasURI[info.ObjectOf(id)] = u
								}
							}
						}
					}
				case *ast.IfStmt:
					if be, ok := s.Cond.(*ast.BinaryExpr); ok && be.Op == token.EQL && isIdentNamed(be.X, "typeString") {
						chain = flattenIfChain(s)
					} else if u, ok := s.Cond.(*ast.UnaryExpr); ok && u.Op == token.NOT {
						// if !ok { XAlias = aliasMap["http://..."] }: the fallback spelling must be the same vocabulary
						for _, b := range s.Body.List {
							if as, ok := b.(*ast.AssignStmt); ok && len(as.Lhs) == 1 && len(as.Rhs) == 1 {
								if ix, ok := as.Rhs[0].(*ast.IndexExpr); ok {
									if alt, ok := strLit(info, ix.Index); ok {
										if id, ok := as.Lhs[0].(*ast.Ident); ok {
											prim := aliasURI[info.ObjectOf(id)]
											res.check(normURI(prim) == normURI(alt), "C14-R1", "JSONResolver.Resolve", relPos(S.Fset, as.Pos()), "alias "+id.Name+" is bound to one vocabulary (https and http spellings)", prim+" vs "+alt)
										}
									}
								}
							}
						}
					}
				}
			}
		}
		var entries []*dispatchEntry
		sawElse := false
		for _, l := range chain {
			if l.cond == nil {
				sawElse = true
				res.check(len(l.body.List) == 1 && returnsIdent(l.body.List[0], "ErrUnhandledType"), "C14-R2", "JSONResolver.Resolve", relPos(S.Fset, l.pos), "a type the vocabularies do not define yields ErrUnhandledType", "final else does something else")
				continue
			}
			e := &dispatchEntry{pos: l.pos}
			be := l.cond.(*ast.BinaryExpr)
			if add, ok := be.Y.(*ast.BinaryExpr); ok && add.Op == token.ADD {
				if id, ok := add.X.(*ast.Ident); ok {
					e.vocabURI = aliasURI[info.ObjectOf(id)]
				}
				e.name, _ = strLit(info, add.Y)
			}
			if e.vocabURI == "" || e.name == "" {
				e.problems = append(e.problems, "condition is not typeString == <Alias>+\"Name\"")
			}
			// body: v, err := mgr.DeserializeX()(m, aliasMap); if err != nil {return err}; for range callbacks {if fn, ok := i.(F); ok {return fn(ctx, v)}}; return ErrNoCallbackMatch
			if len(l.body.List) != 4 {
				e.problems = append(e.problems, fmt.Sprintf("branch has %d statements, expected 4", len(l.body.List)))
			} else {
				var vObj types.Object
				if as, ok := l.body.List[0].(*ast.AssignStmt); ok && len(as.Rhs) == 1 {
					if outer, ok := as.Rhs[0].(*ast.CallExpr); ok {
						if inner, ok := outer.Fun.(*ast.CallExpr); ok {
							e.deser = calleeFunc(info, inner)
							if tv, ok := info.Types[outer]; ok {
								if tup, ok := tv.Type.(*types.Tuple); ok && tup.Len() == 2 {
									e.valType, _ = tup.At(0).Type().(*types.Named)
								}
							}
							argsOK := len(outer.Args) == 2 && isIdentNamed(outer.Args[0], "m") && isIdentNamed(outer.Args[1], "aliasMap")
							if !argsOK {
								e.problems = append(e.problems, "the deserialiser is not applied to the input map")
							}
						}
					}
					if id, ok := as.Lhs[0].(*ast.Ident); ok {
						vObj = info.ObjectOf(id)
					}
				}
				if e.deser == nil || e.valType == nil {
					e.problems = append(e.problems, "first statement is not v, err := mgr.Deserialize…()(m, aliasMap)")
				}
				if ifs, ok := l.body.List[1].(*ast.IfStmt); !ok || len(ifs.Body.List) != 1 || !returnsIdent(ifs.Body.List[0], "err") {
					e.problems = append(e.problems, "a deserialisation error is not returned as is")
				}
				e.cbType = parseCallbackLoop(info, l.body.List[2], vObj, e)
				if !returnsIdent(l.body.List[3], "ErrNoCallbackMatch") {
					e.problems = append(e.problems, "no matching callback does not yield ErrNoCallbackMatch")
				}
			}
			entries = append(entries, e)
		}
		res.check(sawElse, "C14-R2", "JSONResolver.Resolve", relPos(S.Fset, fd.Pos()), "the chain ends in an else for unknown types", "no final else")
		checkEntries("JSONResolver.Resolve", entries, fd.Pos())
		// the tail: a single "type" string is handled directly; for an array each
		// string is tried in order and ONLY ErrUnhandledType lets the next one be tried
		okSingle, okArray := false, false
		for _, st := range fd.Body.List {
			ifs, ok := st.(*ast.IfStmt)
			if !ok || ifs.Init == nil {
				continue
			}
			as, ok := ifs.Init.(*ast.AssignStmt)
			if !ok || len(as.Rhs) != 1 {
				continue
			}
			ta, ok := as.Rhs[0].(*ast.TypeAssertExpr)
			if !ok || !isIdentNamed(ta.X, "typeValue") {
				continue
			}
			links := flattenIfChain(ifs)
			if len(links) != 3 {
				res.undecided("C14-R2", "JSONResolver.Resolve", relPos(S.Fset, ifs.Pos()), "the 'type' member is handled as string / array / other", fmt.Sprintf("%d branches", len(links)))
				continue
			}
			// string branch: return handleFn(typeStr)
			if len(links[0].body.List) == 1 {
				if r, ok := links[0].body.List[0].(*ast.ReturnStmt); ok && len(r.Results) == 1 {
					if c, ok := r.Results[0].(*ast.CallExpr); ok && isIdentNamed(c.Fun, "handleFn") {
						okSingle = true
					}
				}
			}
			// array branch: for range { if s, ok := x.(string); ok { if err := handleFn(s); err == nil {return nil} else if err == ErrUnhandledType {continue} else {return err} } }; return ErrUnhandledType
			if len(links[1].body.List) == 2 && returnsIdent(links[1].body.List[1], "ErrUnhandledType") {
				if rs, ok := links[1].body.List[0].(*ast.RangeStmt); ok && len(rs.Body.List) == 1 {
					if strIf, ok := rs.Body.List[0].(*ast.IfStmt); ok && len(strIf.Body.List) == 1 && strIf.Else == nil {
						if inner, ok := strIf.Body.List[0].(*ast.IfStmt); ok {
							il := flattenIfChain(inner)
							condIs := func(e ast.Expr, rhs string) bool {
								be, ok := e.(*ast.BinaryExpr)
								return ok && be.Op == token.EQL && isIdentNamed(be.X, "err") && isIdentNamed(be.Y, rhs)
							}
							isContinue := func(b *ast.BlockStmt) bool {
								if len(b.List) != 1 {
									return false
								}
								br, ok := b.List[0].(*ast.BranchStmt)
								return ok && br.Tok == token.CONTINUE
							}
							if len(il) == 3 && il[2].cond == nil &&
								condIs(il[0].cond, "nil") && len(il[0].body.List) == 1 && returnsIdent(il[0].body.List[0], "nil") &&
								condIs(il[1].cond, "ErrUnhandledType") && isContinue(il[1].body) &&
								len(il[2].body.List) == 1 && returnsIdent(il[2].body.List[0], "err") {
								okArray = true
							}
						}
					}
				}
			}
			res.check(len(links[2].body.List) == 1 && returnsIdent(links[2].body.List[0], "ErrUnhandledType"), "C14-R2", "JSONResolver.Resolve", relPos(S.Fset, links[2].pos), "a 'type' that is neither string nor array yields ErrUnhandledType", "different")
		}
		res.check(okSingle, "C14-R2", "JSONResolver.Resolve", relPos(S.Fset, fd.Pos()), "a single 'type' string is dispatched directly and its result returned", "tail of Resolve has another form")
		res.check(okArray, "C14-R2", "JSONResolver.Resolve", relPos(S.Fset, fd.Pos()), "for a 'type' array each string is tried in order; success returns, only ErrUnhandledType moves on, any other error (incl. ErrNoCallbackMatch and a callback's own error) is returned unchanged; none known ⇒ ErrUnhandledType", "the loop over the type array has another form (e.g. continues on more than ErrUnhandledType)")
		nJSON := len(entries)
		if !res.allOKSince(mk) {
			// the statement forms were not all recognised: read the relation off the SSA form
			if es, ok := ssaEntriesFor(S, "JSONResolver", "Resolve", true, ifaceOf, mgrMethod); ok {
				res.rollback(mk)
				checkEntries("JSONResolver.Resolve", es, fd.Pos())
				checkResolverTailSSA(res, S, "JSONResolver", "Resolve")
				nJSON = len(es)
			}
		}
		// whatever the statement form: a nil answer needs a callback that ran (shared with C10-R10)
		if sp := loadStreamsRootSSA(); sp != nil {
			if fn := methodOf(sp, "JSONResolver", "Resolve"); fn != nil {
				anon := map[*ssa.Function]bool{}
				for _, a := range fn.AnonFuncs {
					anon[a] = true
				}
				checkNilOnlyAfter(res, "C14-R2", fn, 0, true, func(c ssa.CallInstruction) bool {
					if c.Common().IsInvoke() {
						return false
					}
					if _, isBuiltin := c.Common().Value.(*ssa.Builtin); isBuiltin {
						return false
					}
					callee := c.Common().StaticCallee()
					return callee == nil || anon[callee]
				}, "a call of a resolver callback")
			}
		}
		res.Count("JSONResolver branches", nJSON, 60)
	}

	// ---- TypeResolver.Resolve and TypePredicatedResolver.Apply
	for _, tr := range []struct{ method, kind string }{{"(TypeResolver).Resolve", "type"}, {"(TypePredicatedResolver).Apply", "pred"}} {
		fd := funcs[tr.method]
		which := strings.NewReplacer("(", "", ")", "").Replace(tr.method)
		mk := res.mark()
		if fd == nil {
			res.undecided("C14-R1", which, "-", "method found", "missing")
			continue
		}
		var chain []chainLink
		var loopVar types.Object
		ast.Inspect(fd.Body, func(n ast.Node) bool {
			if rs, ok := n.(*ast.RangeStmt); ok && tr.kind == "type" {
				if id, ok := rs.Value.(*ast.Ident); ok {
					loopVar = info.ObjectOf(id)
				}
				okRange := false
				if sel, ok := rs.X.(*ast.SelectorExpr); ok && sel.Sel.Name == "callbacks" {
					okRange = true
				}
				res.check(okRange, "C14-R2", which, relPos(S.Fset, rs.Pos()), "callbacks are tried in registration order (range over this.callbacks)", "ranges over something else")
			}
			if ifs, ok := n.(*ast.IfStmt); ok && chain == nil {
				if be, ok := ifs.Cond.(*ast.BinaryExpr); ok && be.Op == token.LAND {
					chain = flattenIfChain(ifs)
					return false
				}
			}
			return true
		})
		var entries []*dispatchEntry
		sawElse := false
		for _, l := range chain {
			if l.cond == nil {
				sawElse = true
				okE := len(l.body.List) == 1 && (returnsIdent(l.body.List[0], "ErrUnhandledType") || returnsIdent(l.body.List[0], "false", "ErrUnhandledType"))
				res.check(okE, "C14-R2", which, relPos(S.Fset, l.pos), "a type the vocabularies do not define yields ErrUnhandledType", "final else does something else")
				continue
			}
			e := &dispatchEntry{pos: l.pos}
			be, _ := l.cond.(*ast.BinaryExpr)
			parseCmp := func(x ast.Expr, method string) (string, bool) {
				b, ok := x.(*ast.BinaryExpr)
				if !ok || b.Op != token.EQL {
					return "", false
				}
				c, ok := b.X.(*ast.CallExpr)
				if !ok {
					return "", false
				}
				sel, ok := c.Fun.(*ast.SelectorExpr)
				if !ok || sel.Sel.Name != method || !isIdentNamed(sel.X, "o") {
					return "", false
				}
				return strLit(info, b.Y)
			}
			var ok1, ok2 bool
			if be != nil {
				e.vocabURI, ok1 = parseCmp(be.X, "VocabularyURI")
				e.name, ok2 = parseCmp(be.Y, "GetTypeName")
			}
			if !ok1 || !ok2 {
				e.problems = append(e.problems, "condition is not o.VocabularyURI() == \"…\" && o.GetTypeName() == \"…\"")
			}
			// body: if fn, ok := X.(F); ok { if v, ok := o.(T); ok { <call> } else { return errCannotTypeAssertType } } [else {return false, ErrPredicateUnmatched}]
			if len(l.body.List) != 1 {
				e.problems = append(e.problems, "branch is not a single if")
			} else if ifs, ok := l.body.List[0].(*ast.IfStmt); !ok {
				e.problems = append(e.problems, "branch is not a single if")
			} else {
				var fnObj types.Object
				if as, ok := ifs.Init.(*ast.AssignStmt); ok && len(as.Rhs) == 1 {
					if ta, ok := as.Rhs[0].(*ast.TypeAssertExpr); ok {
						e.cbType, _ = callbackParamType(info, ta.Type)
						src := types.ExprString(ta.X)
						if tr.kind == "type" {
							if id, ok := ta.X.(*ast.Ident); !ok || info.ObjectOf(id) != loopVar {
								e.problems = append(e.problems, "the callback tried is not the current element of this.callbacks")
							}
						} else if src != "this.predicate" {
							e.problems = append(e.problems, "the function tried is not this.predicate")
						}
						if id, ok := as.Lhs[0].(*ast.Ident); ok {
							fnObj = info.ObjectOf(id)
						}
					}
				}
				if e.cbType == nil {
					e.problems = append(e.problems, "no type assertion of the callback to func(context.Context, vocab.T) …")
				}
				if len(ifs.Body.List) == 1 {
					if in, ok := ifs.Body.List[0].(*ast.IfStmt); ok {
						var vObj types.Object
						if as, ok := in.Init.(*ast.AssignStmt); ok && len(as.Rhs) == 1 {
							if ta, ok := as.Rhs[0].(*ast.TypeAssertExpr); ok && isIdentNamed(ta.X, "o") {
								if tv, ok := info.Types[ta.Type]; ok {
									e.valType, _ = tv.Type.(*types.Named)
								}
								if id, ok := as.Lhs[0].(*ast.Ident); ok {
									vObj = info.ObjectOf(id)
								}
							}
						}
						// the call fn(ctx, v)
						okCall := false
						if len(in.Body.List) == 1 {
							var call *ast.CallExpr
							switch s := in.Body.List[0].(type) {
							case *ast.ReturnStmt:
								if len(s.Results) == 1 {
									call, _ = s.Results[0].(*ast.CallExpr)
								}
							case *ast.AssignStmt:
								if len(s.Rhs) == 1 && len(s.Lhs) == 2 && isIdentNamed(s.Lhs[0], "predicatePasses") && isIdentNamed(s.Lhs[1], "err") {
									call, _ = s.Rhs[0].(*ast.CallExpr)
								}
							}
							if call != nil && len(call.Args) == 2 && isIdentNamed(call.Args[0], "ctx") {
								f, ok1 := call.Fun.(*ast.Ident)
								a, ok2 := call.Args[1].(*ast.Ident)
								okCall = ok1 && ok2 && info.ObjectOf(f) == fnObj && info.ObjectOf(a) == vObj
							}
						}
						if !okCall {
							e.problems = append(e.problems, "the branch does not call fn(ctx, v) on the asserted callback and value and pass its result on")
						}
						if eb, ok := in.Else.(*ast.BlockStmt); !ok || len(eb.List) != 1 || !(returnsIdent(eb.List[0], "errCannotTypeAssertType") || returnsIdent(eb.List[0], "false", "errCannotTypeAssertType")) {
							e.problems = append(e.problems, "a failed value assertion does not yield errCannotTypeAssertType")
						}
					} else {
						e.problems = append(e.problems, "inner statement is not the value assertion")
					}
				} else {
					e.problems = append(e.problems, "callback branch does more than assert and call")
				}
				if tr.kind == "pred" {
					if eb, ok := ifs.Else.(*ast.BlockStmt); !ok || len(eb.List) != 1 || !returnsIdent(eb.List[0], "false", "ErrPredicateUnmatched") {
						e.problems = append(e.problems, "a predicate of another type does not yield ErrPredicateUnmatched")
					}
				} else if ifs.Else != nil {
					e.problems = append(e.problems, "a callback of another type is not simply skipped")
				}
			}
			entries = append(entries, e)
		}
		res.check(sawElse, "C14-R2", which, relPos(S.Fset, fd.Pos()), "the chain ends in an else for unknown types", "no final else")
		checkEntries(which, entries, fd.Pos())
		nBr := len(entries)
		if tr.kind == "type" {
			// after the loop: return ErrNoCallbackMatch
			last := fd.Body.List[len(fd.Body.List)-1]
			res.check(returnsIdent(last, "ErrNoCallbackMatch"), "C14-R2", which, relPos(S.Fset, last.Pos()), "no callback of the value's type yields ErrNoCallbackMatch", "different final statement")
		}
		if !res.allOKSince(mk) {
			parts := strings.SplitN(which, ".", 2)
			if es, ok := ssaEntriesFor(S, parts[0], parts[1], false, ifaceOf, mgrMethod); ok {
				res.rollback(mk)
				checkEntries(which, es, fd.Pos())
				checkResolverTailSSA(res, S, parts[0], parts[1])
				nBr = len(es)
			}
		}
		res.Count(which+" branches", nBr, 60)
	}

	checkC14SSA(res)
	res.Rule("C14-R5", "the JSON resolver finds a type named with a vocabulary alias whichever scheme (http / https) the document's @context spells the vocabulary with: toAliasMap registers every http(s) vocabulary under both spellings (shared with C01-R9)")
	checkToAliasMapPairs(res, "C14-R5")

	// ---- IsUnmatchedErr
	if fd := funcs["IsUnmatchedErr"]; fd != nil {
		names := map[string]bool{}
		okForm := len(fd.Body.List) == 1
		if okForm {
			if r, ok := fd.Body.List[0].(*ast.ReturnStmt); ok && len(r.Results) == 1 {
				var walk func(e ast.Expr)
				walk = func(e ast.Expr) {
					switch x := e.(type) {
					case *ast.BinaryExpr:
						if x.Op == token.LOR {
							walk(x.X)
							walk(x.Y)
						} else if x.Op == token.EQL && isIdentNamed(x.X, "err") {
							if id, ok := x.Y.(*ast.Ident); ok {
								names[id.Name] = true
							}
						} else {
							okForm = false
						}
					case *ast.ParenExpr:
						walk(x.X)
					default:
						okForm = false
					}
				}
				walk(r.Results[0])
			} else {
				okForm = false
			}
		}
		res.check(okForm && len(names) == 3 && names["ErrNoCallbackMatch"] && names["ErrUnhandledType"] && names["ErrPredicateUnmatched"], "C14-R2", "IsUnmatchedErr", relPos(S.Fset, fd.Pos()), "IsUnmatchedErr is err == one of the three exported sentinels", fmt.Sprintf("recognises %v", setList(names)))
	} else {
		res.undecided("C14-R2", "IsUnmatchedErr", "-", "function found", "missing")
	}

	// ---- constructors
	for _, c := range []struct {
		name    string
		results int
	}{{"NewJSONResolver", 1}, {"NewTypeResolver", 1}, {"NewTypePredicatedResolver", 2}} {
		fd := funcs[c.name]
		if fd == nil {
			res.undecided("C14-R3", c.name, "-", "constructor found", "missing")
			continue
		}
		seen := map[string]int{}
		hasDefaultErr := false
		// the validation may live in a function the constructor calls (split out of it)
		bodies := []ast.Node{fd.Body}
		ast.Inspect(fd.Body, func(n ast.Node) bool {
			if c, ok := n.(*ast.CallExpr); ok {
				if f := calleeFunc(info, c); f != nil && f.Pkg() == S.Root.Types {
					if cd := S.funcDecl[f]; cd != nil && cd != fd && cd.Body != nil {
						bodies = append(bodies, cd.Body)
					}
				}
			}
			return true
		})
		inspectAll := func(f func(ast.Node) bool) {
			for _, b := range bodies {
				ast.Inspect(b, f)
			}
		}
		inspectAll(func(n ast.Node) bool {
			ts, ok := n.(*ast.TypeSwitchStmt)
			if !ok {
				return true
			}
			for _, cl := range ts.Body.List {
				cc := cl.(*ast.CaseClause)
				if cc.List == nil {
					for _, st := range cc.Body {
						if r, ok := st.(*ast.ReturnStmt); ok && len(r.Results) >= 1 && !isIdentNamed(r.Results[len(r.Results)-1], "nil") {
							if len(r.Results) == 1 || isIdentNamed(r.Results[0], "nil") {
								hasDefaultErr = true
							}
						}
					}
					continue
				}
				for _, te := range cc.List {
					n, sig := callbackParamType(info, te)
					g := ifaceOf[n]
					okSig := sig != nil && sig.Results().Len() == c.results && sig.Results().At(sig.Results().Len()-1).Type().String() == "error"
					if c.results == 2 && okSig {
						okSig = sig.Results().At(0).Type().String() == "bool"
					}
					if g == nil || !okSig {
						res.bad("C14-R3", c.name, relPos(S.Fset, te.Pos()), "accepted signature is func(context.Context, <type interface>) with the resolver's result shape", "accepts "+types.ExprString(te))
						continue
					}
					seen[g.Name]++
					for _, st := range cc.Body {
						if _, isRet := st.(*ast.ReturnStmt); isRet {
							res.bad("C14-R3", c.name, relPos(S.Fset, st.Pos()), "a legal signature is accepted", "the case for "+g.Name+" returns")
						}
					}
				}
			}
			return true
		})
		if !hasDefaultErr {
			// not in the statement form above (the validation was merged through a variable, say):
			// follow every path that starts where the last type assertion fails; each must end in
			// a return whose error is known non-nil
			if sp := loadStreamsRootSSA(); sp != nil {
				if fn := sp.Func(c.name); fn != nil {
					edges := typeSwitchDefaultEdges(fn, 10)
					okAll := len(edges) > 0
					for _, e := range edges {
						done := walkFromEdge(e[0], e[1], func(r *ssa.Return, env pathEnv) bool {
							if len(r.Results) == 0 || nilnessOf(r.Results[len(r.Results)-1], env, 0) != nlNonNil {
								okAll = false
								return false
							}
							return true
						})
						if !done {
							okAll = false
						}
					}
					hasDefaultErr = okAll
				}
			}
		}
		res.check(hasDefaultErr, "C14-R3", c.name, relPos(S.Fset, fd.Pos()), "a function of any other shape is rejected with an error", "a value that matches none of the accepted signatures can leave the constructor without an error")
		var bad []string
		for n := range typed {
			if seen[n] != 1 {
				bad = append(bad, fmt.Sprintf("%s×%d", n, seen[n]))
			}
		}
		for n := range seen {
			if !typed[n] {
				bad = append(bad, n+" (not a typed type)")
			}
		}
		sort.Strings(bad)
		res.check(len(bad) == 0, "C14-R3", c.name, relPos(S.Fset, fd.Pos()), "exactly one accepted signature per typed type", strings.Join(bad, ", "))
	}

	// ---- ToType
	if fd := funcs["ToType"]; fd != nil {
		seen := map[string]int{}
		var resultObj types.Object
		if fd.Type.Results != nil && len(fd.Type.Results.List) > 0 && len(fd.Type.Results.List[0].Names) > 0 {
			resultObj = info.ObjectOf(fd.Type.Results.List[0].Names[0])
		} else {
			// explicit returns: the one variable every return hands back as the value
			same := true
			ast.Inspect(fd.Body, func(n ast.Node) bool {
				if _, isLit := n.(*ast.FuncLit); isLit {
					return false
				}
				if r, ok := n.(*ast.ReturnStmt); ok && len(r.Results) == 2 {
					if id, ok := r.Results[0].(*ast.Ident); ok && id.Name != "nil" {
						if o := info.ObjectOf(id); resultObj == nil {
							resultObj = o
						} else if o != resultObj {
							same = false
						}
					}
				}
				return true
			})
			if !same {
				resultObj = nil
			}
		}
		ast.Inspect(fd.Body, func(n ast.Node) bool {
			fl, ok := n.(*ast.FuncLit)
			if !ok {
				return true
			}
			nm, _ := callbackParamType(info, fl.Type)
			g := ifaceOf[nm]
			okBody := len(fl.Body.List) == 2 && returnsIdent(fl.Body.List[1], "nil")
			if okBody {
				as, ok := fl.Body.List[0].(*ast.AssignStmt)
				okBody = ok && len(as.Lhs) == 1 && len(as.Rhs) == 1
				if okBody {
					l, ok1 := as.Lhs[0].(*ast.Ident)
					r, ok2 := as.Rhs[0].(*ast.Ident)
					okBody = ok1 && ok2 && info.ObjectOf(l) == resultObj && len(fl.Type.Params.List) == 2 && len(fl.Type.Params.List[1].Names) == 1 && info.ObjectOf(r) == info.ObjectOf(fl.Type.Params.List[1].Names[0])
				}
			}
			if g == nil || !okBody {
				res.bad("C14-R4", "ToType", relPos(S.Fset, fl.Pos()), "registered closure takes a type interface and assigns its argument to the result", "unexpected closure")
				return false
			}
			seen[g.Name]++
			return false
		})
		var bad []string
		for n := range typed {
			if seen[n] != 1 {
				bad = append(bad, fmt.Sprintf("%s×%d", n, seen[n]))
			}
		}
		sort.Strings(bad)
		res.check(len(bad) == 0, "C14-R4", "ToType", relPos(S.Fset, fd.Pos()), "one assigning closure per typed type", strings.Join(bad, ", "))
	} else {
		res.undecided("C14-R4", "ToType", "-", "function found", "missing")
	}
	res.Functions = 8
	res.Assumptions = append(res.Assumptions, "a value's GetTypeName()/VocabularyURI() return the literals extracted from its type (C13-R6, C12-R4)", "go/types resolution of the Manager's Deserialize methods to the type packages")
	res.Undecided = []string{"multi-valued 'type' arrays beyond the structure of the loop that tries each string", "vocabularies other than the shipped ones"}
	res.Trusted = []string{"go/parser, go/types", "ontology.go", "the strict branch parser of c14.go"}
}

// parseCallbackLoop recognises
//
//	for _, i := range this.callbacks { if fn, ok := i.(F); ok { return fn(ctx, v) } }
//
// and returns F's parameter interface.
func parseCallbackLoop(info *types.Info, st ast.Stmt, vObj types.Object, e *dispatchEntry) *types.Named {
	rs, ok := st.(*ast.RangeStmt)
	if !ok {
		e.problems = append(e.problems, "third statement is not the loop over this.callbacks")
		return nil
	}
	if sel, ok := rs.X.(*ast.SelectorExpr); !ok || sel.Sel.Name != "callbacks" {
		e.problems = append(e.problems, "the loop does not range over this.callbacks (registration order)")
	}
	if len(rs.Body.List) != 1 {
		e.problems = append(e.problems, "loop body is not a single if")
		return nil
	}
	ifs, ok := rs.Body.List[0].(*ast.IfStmt)
	if !ok || ifs.Else != nil || len(ifs.Body.List) != 1 {
		e.problems = append(e.problems, "loop body is not `if fn, ok := i.(F); ok { return fn(ctx, v) }`")
		return nil
	}
	var cb *types.Named
	var fnObj types.Object
	if as, ok := ifs.Init.(*ast.AssignStmt); ok && len(as.Rhs) == 1 {
		if ta, ok := as.Rhs[0].(*ast.TypeAssertExpr); ok {
			cb, _ = callbackParamType(info, ta.Type)
			if id, ok := ta.X.(*ast.Ident); !ok || rs.Value == nil || info.ObjectOf(id) != info.ObjectOf(rs.Value.(*ast.Ident)) {
				e.problems = append(e.problems, "the callback tried is not the current element of this.callbacks")
			}
			if id, ok := as.Lhs[0].(*ast.Ident); ok {
				fnObj = info.ObjectOf(id)
			}
		}
	}
	okCall := false
	if r, ok := ifs.Body.List[0].(*ast.ReturnStmt); ok && len(r.Results) == 1 {
		if c, ok := r.Results[0].(*ast.CallExpr); ok && len(c.Args) == 2 && isIdentNamed(c.Args[0], "ctx") {
			f, ok1 := c.Fun.(*ast.Ident)
			a, ok2 := c.Args[1].(*ast.Ident)
			okCall = ok1 && ok2 && info.ObjectOf(f) == fnObj && info.ObjectOf(a) == vObj
		}
	}
	if !okCall {
		e.problems = append(e.problems, "the first matching callback is not called as fn(ctx, v) with its result returned unchanged")
	}
	return cb
}
