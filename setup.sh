#!/bin/bash
# Builds the checker offline from files on disk only.
set -e
cd "$(dirname "$0")"
export GOFLAGS=-mod=mod GOPROXY=off GOSUMDB=off GOTOOLCHAIN=local GOWORK=off
mkdir -p bin evidence
(cd checker && go build -o ../bin/verifchk .)
echo "built bin/verifchk"
